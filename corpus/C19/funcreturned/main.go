package main

import (
	"vprog/rt"
)

func ent_1() { // entry:1
	rt.Enter(1)
	defer rt.GDone()
	if rt.Sel(1) {
		panic("boom1")
	}
}

func pick_1() func() { return ent_1 }

// case 1: go=funcreturned rec=none
func case1() {
	rt.WG.Add(1)
	f_1 := pick_1()
	go f_1() // go:1
	rt.WG.Wait()
}

func main() {
	defer rt.Done()
	case1()
}
