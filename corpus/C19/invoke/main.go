package main

import (
	"vprog/rt"
)

type I_1 interface{ run() }
type T_1 struct{ n int }

func (t T_1) run() { // entry:1
	rt.Enter(1)
	defer rt.GDone()
	if rt.Sel(1) {
		panic("boom1")
	}
}

// case 1: go=invoke rec=none
func case1() {
	rt.WG.Add(1)
	var i_1 I_1 = T_1{}
	go i_1.run() // go:1
	rt.WG.Wait()
}

func main() {
	defer rt.Done()
	case1()
}
