package main

import (
	"vprog/rt"
)

func ent_1() { // entry:1
	rt.Enter(1)
	defer rt.GDone()
	if rt.Sel(1) {
		panic("boom1")
	}
}

// case 1: go=funcmap rec=none
func case1() {
	rt.WG.Add(1)
	m_1 := map[string]func(){"a": ent_1}
	go m_1["a"]() // go:1
	rt.WG.Wait()
}

func main() {
	defer rt.Done()
	case1()
}
