package main

import (
	"vprog/rt"
)

type H_1 struct{ f func() }

func ent_1() { // entry:1
	rt.Enter(1)
	defer rt.GDone()
	if rt.Sel(1) {
		panic("boom1")
	}
}

// case 1: go=funcfield rec=none
func case1() {
	rt.WG.Add(1)
	h_1 := &H_1{f: ent_1}
	go h_1.f() // go:1
	rt.WG.Wait()
}

func main() {
	defer rt.Done()
	case1()
}
