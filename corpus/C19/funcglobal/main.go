package main

import (
	"vprog/rt"
)

func ent_1() { // entry:1
	rt.Enter(1)
	defer rt.GDone()
	if rt.Sel(1) {
		panic("boom1")
	}
}

var gf_1 func()

func setgf_1() { gf_1 = ent_1 }

// case 1: go=funcglobal rec=none
func case1() {
	rt.WG.Add(1)
	setgf_1()
	go gf_1() // go:1
	rt.WG.Wait()
}

func main() {
	defer rt.Done()
	case1()
}
