package main

import (
	"vprog/rt"
)

func ent_1() { // entry:1
	rt.Enter(1)
	defer rt.GDone()
	if rt.Sel(1) {
		panic("boom1")
	}
}

func spawn_1(f func()) {
	go f() // go:1
}

// case 1: go=funcparam rec=none
func case1() {
	rt.WG.Add(1)
	spawn_1(ent_1)
	rt.WG.Wait()
}

func main() {
	defer rt.Done()
	case1()
}
