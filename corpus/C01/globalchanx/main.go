package main

import (
	"vprog/rt"
)

var gc_1_0 = make(chan string, 1)

func setg_1_0(s string) { gc_1_0 <- s }
func getg_1_0() string  { return <-gc_1_0 }

func chain1() {
	x0 := rt.Source(1)
	// link globalchanx
	setg_1_0(x0)
	x1 := getg_1_0()
	rt.Sink(1, x1)
}

func main() {
	defer rt.Done()
	rt.Begin(1)
	chain1()
}
