package main

import (
	"strings"
	"vprog/rt"
)

func chain1() {
	x0 := rt.Source(1)
	// link builder
	var sb_1_0 strings.Builder
	sb_1_0.WriteString(x0)
	x1 := sb_1_0.String()
	rt.Sink(1, x1)
}

func main() {
	defer rt.Done()
	rt.Begin(1)
	chain1()
}
