package main

import (
	"vprog/rt"
)

type S_1_0 struct{ a, b string }

var gs_1_0 S_1_0

func setg_1_0(s string) { gs_1_0.a = s }
func getg_1_0() string  { return gs_1_0.a }

func chain1() {
	x0 := rt.Source(1)
	// link globalstructx
	setg_1_0(x0)
	x1 := getg_1_0()
	rt.Sink(1, x1)
}

func main() {
	defer rt.Done()
	rt.Begin(1)
	chain1()
}
