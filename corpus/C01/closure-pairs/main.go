package main

import (
	"vprog/rt"
)

type A_1_0 struct{ v string }

func (a A_1_0) Get() string { return a.v }

type A_1_1 struct{ v string }

func (a *A_1_1) Set(s string) { a.v = s }

func chain1() {
	x0 := rt.Source(1)
	// link methodvalue
	a_1_0 := A_1_0{v: x0}
	f_1_0 := a_1_0.Get
	x1 := f_1_0()
	// link methodvalueptr
	a_1_1 := &A_1_1{}
	f_1_1 := a_1_1.Set
	f_1_1(x1)
	x2 := a_1_1.v
	rt.Sink(1, x2)
}

func main() {
	defer rt.Done()
	rt.Begin(1)
	chain1()
}
