package main

import (
	"vprog/rt"
)

var gm_1_0 = map[string]string{}

func setg_1_0(s string) { gm_1_0["k"] = s }
func getg_1_0() string  { return gm_1_0["k"] }

func chain1() {
	x0 := rt.Source(1)
	// link globalmapx
	setg_1_0(x0)
	x1 := getg_1_0()
	rt.Sink(1, x1)
}

func main() {
	defer rt.Done()
	rt.Begin(1)
	chain1()
}
