package main

import (
	"vprog/rt"
)

var gl_1_0 = make([]string, 2)

func setg_1_0(s string) { gl_1_0[1] = s }
func getg_1_0() string  { return gl_1_0[1] }

func chain1() {
	x0 := rt.Source(1)
	// link globalsliceelemx
	setg_1_0(x0)
	x1 := getg_1_0()
	rt.Sink(1, x1)
}

func main() {
	defer rt.Done()
	rt.Begin(1)
	chain1()
}
