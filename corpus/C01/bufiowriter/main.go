package main

import (
	"bufio"
	"bytes"
	"vprog/rt"
)

func chain1() {
	x0 := rt.Source(1)
	// link bufiowriter
	var bb_1_0 bytes.Buffer
	w_1_0 := bufio.NewWriter(&bb_1_0)
	_, _ = w_1_0.WriteString(x0)
	_ = w_1_0.Flush()
	x1 := bb_1_0.String()
	rt.Sink(1, x1)
}

func main() {
	defer rt.Done()
	rt.Begin(1)
	chain1()
}
