package main

import (
	"fmt"
	"vprog/rt"
)

func chain1() {
	x0 := rt.Source(1)
	// link sprintf
	x1 := fmt.Sprintf("%s-%d", x0, 1)
	// link sprint
	x2 := fmt.Sprint("v=", x1)
	rt.Sink(1, x2)
}

func main() {
	defer rt.Done()
	rt.Begin(1)
	chain1()
}
