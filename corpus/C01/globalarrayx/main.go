package main

import (
	"vprog/rt"
)

var ga_1_0 [3]string

func setg_1_0(s string) { ga_1_0[1] = s }
func getg_1_0() string  { return ga_1_0[1] }

func chain1() {
	x0 := rt.Source(1)
	// link globalarrayx
	setg_1_0(x0)
	x1 := getg_1_0()
	rt.Sink(1, x1)
}

func main() {
	defer rt.Done()
	rt.Begin(1)
	chain1()
}
