// Package lib holds cross-package helpers of generated chains.
package lib

var hidden_303_1 string

// PutI_303_1 stores.
func PutI_303_1(s string) { hidden_303_1 = s }

// GetI_303_1 loads.
func GetI_303_1() string { return hidden_303_1 }

var hidden_309_3 string

// PutI_309_3 stores.
func PutI_309_3(s string) { hidden_309_3 = s }

// GetI_309_3 loads.
func GetI_309_3() string { return hidden_309_3 }

