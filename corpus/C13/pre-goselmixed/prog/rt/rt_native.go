//go:build vnative

// Package rt: native monitor runtime. Records ground-truth events of the executed program.
package rt

import (
	"fmt"
	"os"
	"reflect"
	"regexp"
	"runtime"
	"sort"
	"strconv"
	"strings"
	"sync"
	"sync/atomic"
)

var (
	mu     sync.Mutex
	out    *os.File
	bits   string
	nextV  int
	vbits  string
	buf    strings.Builder
)

func init() {
	bits = os.Getenv("VERIF_BITS")
	vbits = os.Getenv("VERIF_VBITS")
	p := os.Getenv("VERIF_EVENTS")
	if p == "" {
		out = os.Stderr
		return
	}
	f, err := os.OpenFile(p, os.O_CREATE|os.O_WRONLY|os.O_APPEND, 0o644)
	if err != nil {
		panic(err)
	}
	out = f
}

func emit(s string) {
	mu.Lock()
	buf.WriteString(s)
	buf.WriteByte('\n')
	if buf.Len() > 1<<16 {
		out.WriteString(buf.String())
		buf.Reset()
	}
	mu.Unlock()
}

// Done flushes the event log.
func Done() {
	if crashing.Load() {
		select {}
	}
	mu.Lock()
	out.WriteString(buf.String())
	buf.Reset()
	mu.Unlock()
}

// Source returns a unique marker for the call site id.
func Source(id int) string { return "xmk" + strconv.Itoa(id) + "kmx" }

// SourceB is a byte-slice source.
func SourceB(id int) []byte { return []byte(Source(id)) }

var reRaw = regexp.MustCompile(`(?i)xmk([0-9]+)kmx`)
var reSan = regexp.MustCompile(`(?i)xsk([0-9]+)ksx`)

type found struct {
	raw map[int]bool
	san map[int]bool
}

func scanString(s string, f *found) {
	if len(s) < 7 {
		return
	}
	for _, m := range reRaw.FindAllStringSubmatch(s, -1) {
		n, _ := strconv.Atoi(m[1])
		f.raw[n] = true
	}
	for _, m := range reSan.FindAllStringSubmatch(s, -1) {
		n, _ := strconv.Atoi(m[1])
		f.san[n] = true
	}
}

func walk(v reflect.Value, f *found, seen map[uintptr]bool, depth int) {
	if !v.IsValid() || depth > 40 {
		return
	}
	switch v.Kind() {
	case reflect.String:
		scanString(v.String(), f)
	case reflect.Slice:
		if v.IsNil() {
			return
		}
		et := v.Type().Elem().Kind()
		if et == reflect.Uint8 {
			b := make([]byte, v.Len())
			for i := 0; i < v.Len(); i++ {
				b[i] = byte(v.Index(i).Uint())
			}
			scanString(string(b), f)
			return
		}
		if et == reflect.Int32 {
			r := make([]rune, v.Len())
			for i := 0; i < v.Len(); i++ {
				r[i] = rune(v.Index(i).Int())
			}
			scanString(string(r), f)
			return
		}
		// walk the whole backing array up to cap: memory reachable from the slice
		full := v
		if v.Cap() > v.Len() {
			full = v.Slice(0, v.Cap())
		}
		for i := 0; i < full.Len(); i++ {
			walk(full.Index(i), f, seen, depth+1)
		}
	case reflect.Array:
		et := v.Type().Elem().Kind()
		if et == reflect.Uint8 {
			b := make([]byte, v.Len())
			for i := 0; i < v.Len(); i++ {
				b[i] = byte(v.Index(i).Uint())
			}
			scanString(string(b), f)
			return
		}
		for i := 0; i < v.Len(); i++ {
			walk(v.Index(i), f, seen, depth+1)
		}
	case reflect.Map:
		if v.IsNil() {
			return
		}
		it := v.MapRange()
		for it.Next() {
			walk(it.Key(), f, seen, depth+1)
			walk(it.Value(), f, seen, depth+1)
		}
	case reflect.Pointer:
		if v.IsNil() {
			return
		}
		p := v.Pointer()
		if seen[p] {
			return
		}
		seen[p] = true
		walk(v.Elem(), f, seen, depth+1)
	case reflect.Interface:
		if v.IsNil() {
			return
		}
		e := v.Elem()
		walk(e, f, seen, depth+1)
		// error values: also consult Error() (data stored in opaque std types such as *errors.errorString
		// is reachable through pointer+field, which the walk already covers; this is belt and braces)
	case reflect.Struct:
		for i := 0; i < v.NumField(); i++ {
			walk(v.Field(i), f, seen, depth+1)
		}
	}
}

func ids(m map[int]bool) string {
	var l []int
	for k := range m {
		l = append(l, k)
	}
	sort.Ints(l)
	var sb strings.Builder
	for i, k := range l {
		if i > 0 {
			sb.WriteByte(',')
		}
		sb.WriteString(strconv.Itoa(k))
	}
	return sb.String()
}

func scan(xs ...any) *found {
	f := &found{raw: map[int]bool{}, san: map[int]bool{}}
	seen := map[uintptr]bool{}
	for _, x := range xs {
		walk(reflect.ValueOf(x), f, seen, 0)
	}
	return f
}

// Sink records which markers are reachable from x.
func Sink(id int, x any) {
	f := scan(x)
	emit(fmt.Sprintf("K %d raw=%s san=%s", id, ids(f.raw), ids(f.san)))
}

// SinkS is a string sink.
func SinkS(id int, x string) { Sink(id, x) }

var runeAcc = map[int][]rune{}

// SinkR is a rune sink: the runes that arrive at one sink call site are accumulated, and the markers in what has
// arrived so far are reported.
func SinkR(id int, r rune) {
	mu.Lock()
	runeAcc[id] = append(runeAcc[id], r)
	s := string(runeAcc[id])
	mu.Unlock()
	Sink(id, s)
}

// Sink2 is a two-argument sink.
func Sink2(id int, x any, y any) {
	f := scan(x, y)
	emit(fmt.Sprintf("K %d raw=%s san=%s", id, ids(f.raw), ids(f.san)))
}

// Sanitize rewrites raw markers into sanitised markers.
func Sanitize(x string) string {
	return reRaw.ReplaceAllStringFunc(x, func(m string) string {
		sm := reRaw.FindStringSubmatch(m)
		return "xsk" + sm[1] + "ksx"
	})
}

func nextVBit() bool {
	mu.Lock()
	defer mu.Unlock()
	i := nextV
	nextV++
	if i < len(vbits) {
		return vbits[i] == '1'
	}
	return false
}

// Validate returns the next opaque validator outcome and logs what it was asked about.
func Validate(x string) bool {
	r := nextVBit()
	f := scan(x)
	emit(fmt.Sprintf("V raw=%s ok=%v", ids(f.raw), r))
	return r
}

// ValidateAny validates any value.
func ValidateAny(x any) bool {
	r := nextVBit()
	f := scan(x)
	emit(fmt.Sprintf("V raw=%s ok=%v", ids(f.raw), r))
	return r
}

type verr struct{}

func (verr) Error() string { return "invalid" }

// ValidateErr returns nil iff the next validator outcome is true.
func ValidateErr(x string) error {
	r := nextVBit()
	f := scan(x)
	emit(fmt.Sprintf("V raw=%s ok=%v", ids(f.raw), r))
	if r {
		return nil
	}
	return verr{}
}

// Cond returns opaque input bit i.
func Cond(i int) bool {
	i &= 63
	if i < len(bits) {
		return bits[i] == '1'
	}
	return false
}

var entryToID sync.Map // function entry PC -> Enter id

// Enter marks function entry and records who called: "E <callee id> <caller id> <caller line> <kind>".
// kind: call (plain call from a generated function), defer/viaruntime (a runtime frame in between, e.g. a deferred
// call or a call during panicking), viastd (called back from a standard-library function), go (bottom of a
// goroutine), root (called by the runtime: main/init).
func Enter(id int) {
	var pcs [48]uintptr
	n := runtime.Callers(2, pcs[:])
	frames := runtime.CallersFrames(pcs[:n])
	first := true
	callerID, callerLine, kind := -1, 0, "call"
	for {
		fr, more := frames.Next()
		if first {
			entryToID.Store(fr.Entry, id)
			first = false
		} else if fr.File == "<autogenerated>" {
			// wrapper ($bound, $thunk, promoted method)
		} else if strings.HasPrefix(fr.Function, "runtime.") {
			if fr.Function == "runtime.goexit" {
				if kind == "call" {
					kind = "go"
				}
				break
			}
			if fr.Function == "runtime.main" || fr.Function == "runtime.doInit" || fr.Function == "runtime.doInit1" {
				if kind == "call" {
					kind = "root"
				}
				break
			}
			if kind == "call" {
				kind = "viaruntime"
			}
		} else if !strings.HasPrefix(fr.Function, "main.") && !strings.HasPrefix(fr.Function, "vprog/") {
			if kind == "call" {
				kind = "viastd"
			}
		} else {
			if v, ok := entryToID.Load(fr.Entry); ok {
				callerID = v.(int)
			} else if strings.HasSuffix(fr.Function, ".init") || strings.Contains(fr.Function, ".init.") {
				callerID = -2 // package initializer
			}
			callerLine = fr.Line
			break
		}
		if !more {
			break
		}
	}
	emit("E " + strconv.Itoa(id) + " " + strconv.Itoa(callerID) + " " + strconv.Itoa(callerLine) + " " + kind)
}

// Probe observes a pointer-like value.
func Probe(id int, p any) {
	v := reflect.ValueOf(p)
	switch v.Kind() {
	case reflect.Pointer, reflect.Map, reflect.Chan, reflect.Slice, reflect.UnsafePointer, reflect.Func:
		emit(fmt.Sprintf("P %d %x %s", id, v.Pointer(), v.Type().String()))
	default:
		emit(fmt.Sprintf("P %d 0 %s", id, "?"))
	}
}

// Mark logs a generic event.
func Mark(id int) { emit("M " + strconv.Itoa(id)) }

// ---- decision tapes and defer-stack recording (C16) ----

var (
	tape     []bool
	tapeUsed int
	curPush  []int
	curTwice bool
	curExit  int
	curRan   []int
)

// Next returns the next decision of the current tape (false once exhausted).
func Next() bool {
	i := tapeUsed
	tapeUsed++
	if i < len(tape) {
		return tape[i]
	}
	return false
}

// DPush records the execution of defer statement id.
func DPush(id int) int {
	for _, p := range curPush {
		if p == id {
			curTwice = true
		}
	}
	curPush = append(curPush, id)
	return id
}

// DRun records that the deferred call of statement id ran.
func DRun(id int) { curRan = append(curRan, id) }

// Exit records a normal exit.
func Exit(id int) { curExit = id }

// Nop does nothing.
func Nop() {}

// Nop2 takes a value and does nothing with it.
func Nop2(x any) {}

func runOne(f func()) (panicked bool) {
	defer func() {
		if r := recover(); r != nil {
			panicked = true
		}
	}()
	f()
	return false
}

// DriveAll runs every function under every decision sequence of length <= l (lazily enumerated: only
// decisions that are actually consumed are branched on) and logs, per function, the set of
// (exit, sequence of executed defer statements) pairs, whether some defer statement ran twice in one
// invocation, and whether the deferred calls ran in reverse push order.
func DriveAll(fs []func(), l int) {
	if s := os.Getenv("VERIF_TAPELEN"); s != "" {
		if n, err := strconv.Atoi(s); err == nil {
			l = n
		}
	}
	for idx, f := range fs {
		seen := map[string]bool{}
		twice := false
		runs, panics, lifoBad := 0, 0, 0
		cur := []bool{}
		for {
			tape, tapeUsed = cur, 0
			curPush, curTwice, curExit, curRan = nil, false, -1, nil
			p := runOne(f)
			runs++
			if curTwice {
				twice = true
			}
			if p {
				panics++
			} else {
				var sb strings.Builder
				for i, x := range curPush {
					if i > 0 {
						sb.WriteByte(',')
					}
					sb.WriteString(strconv.Itoa(x))
				}
				seen[strconv.Itoa(curExit)+" ["+sb.String()+"]"] = true
				if len(curRan) != len(curPush) {
					lifoBad++
				} else {
					for i := range curRan {
						if curRan[i] != curPush[len(curPush)-1-i] {
							lifoBad++
							break
						}
					}
				}
			}
			used := tapeUsed
			if used > l {
				used = l
			}
			full := make([]bool, used)
			copy(full, cur)
			i := len(full) - 1
			for i >= 0 && full[i] {
				i--
			}
			if i < 0 {
				break
			}
			full[i] = true
			cur = full[:i+1]
		}
		emit(fmt.Sprintf("F %d runs=%d panics=%d twice=%v lifobad=%d", idx, runs, panics, twice, lifoBad))
		keys := make([]string, 0, len(seen))
		for k := range seen {
			keys = append(keys, k)
		}
		sort.Strings(keys)
		for _, k := range keys {
			emit(fmt.Sprintf("S %d %s", idx, k))
		}
	}
	Done()
}

// WG lets generated programs wait for their goroutines.
var WG sync.WaitGroup

// Sel reports whether n is the case selected by VERIF_CASE.
func Sel(n int) bool { return os.Getenv("VERIF_CASE") == strconv.Itoa(n) }

var crashing atomic.Bool

// GDone signals the end of a goroutine entry function. If the goroutine is dying of an unrecovered panic it
// marks the process as crashing (so that main does not exit 0 before the runtime has printed the crash) and
// re-panics with the same value. Native-only: the analysed stub has no recover.
func GDone() {
	if r := recover(); r != nil {
		crashing.Store(true)
		panic(r)
	}
	WG.Done()
}

// Begin marks the start of a chain: validator outcomes are consumed from the start of VERIF_VBITS again.
func Begin(id int) {
	mu.Lock()
	nextV = 0
	mu.Unlock()
	emit("B " + strconv.Itoa(id))
}

// Try calls f and survives a panic in it (native only).
func Try(f func()) {
	defer func() { _ = recover() }()
	f()
}

// ProbeInd logs the address stored in *pp (pp is a pointer to a pointer-like value): "Q <id> <address held> <type of *pp>".
func ProbeInd(id int, pp any) {
	v := reflect.ValueOf(pp)
	if v.Kind() != reflect.Pointer || v.IsNil() {
		emit(fmt.Sprintf("Q %d 0 ?", id))
		return
	}
	e := v.Elem()
	switch e.Kind() {
	case reflect.Pointer, reflect.Map, reflect.Chan, reflect.Slice:
		emit(fmt.Sprintf("Q %d %x %s", id, e.Pointer(), e.Type().String()))
	default:
		emit(fmt.Sprintf("Q %d 0 ?", id))
	}
}
