//go:build !vnative

// Package rt: end-point functions of generated programs, as seen by the analyzer. Their bodies are irrelevant
// by specification (sources, sinks, sanitizers, validators) or are observation probes.
package rt

import "sync"

// Opaque holds the opaque branch inputs.
var Opaque [64]bool

// Source is the taint source.
func Source(id int) string { return "src" }

// SourceB is a byte-slice source.
func SourceB(id int) []byte { return []byte{'s'} }

// Sink is the taint sink.
func Sink(id int, x any) {}

// SinkS is a string sink.
func SinkS(id int, x string) {}

// SinkR is a rune sink (the runes of a string arrive one by one).
func SinkR(id int, r rune) {}

// Sink2 is a two-argument sink.
func Sink2(id int, x any, y any) {}

// Sanitize is the sanitizer.
func Sanitize(x string) string { return "clean" }

// Validate is the boolean validator.
func Validate(x string) bool { return Opaque[1] }

// ValidateAny is the boolean validator on any value.
func ValidateAny(x any) bool { return Opaque[2] }

// ValidateErr is the error validator.
func ValidateErr(x string) error {
	if Opaque[3] {
		return nil
	}
	return errV
}

type verr struct{}

func (verr) Error() string { return "invalid" }

var errV error = verr{}

// Cond is an opaque branch condition.
func Cond(i int) bool { return Opaque[i&63] }

// Enter marks function entry.
func Enter(id int) {}

// Probe observes a pointer-like value.
func Probe(id int, p any) {}

// Mark logs a generic event.
func Mark(id int) {}

// Done flushes.
func Done() {}

// Next returns the next opaque decision.
func Next() bool { return Opaque[5] }

// DPush marks the execution of a defer statement (evaluated when the defer statement runs).
func DPush(id int) int { return id }

// DRun is the deferred call.
func DRun(id int) {}

// Exit marks a normal function exit.
func Exit(id int) {}

// Nop does nothing.
func Nop() {}

// Nop2 takes a value and does nothing with it.
func Nop2(x any) {}

// DriveAll runs every function under every decision tape.
func DriveAll(fs []func(), l int) {
	for _, f := range fs {
		f()
	}
}

// WG lets generated programs wait for their goroutines.
var WG sync.WaitGroup

// Sel selects the goroutine that panics.
func Sel(n int) bool { return Opaque[7] }

// GDone signals the end of a goroutine entry function (deferred first, so it runs last).
func GDone() { WG.Done() }

// Begin marks the start of a chain (resets the validator outcome tape natively).
func Begin(id int) {}

// Try calls f (natively it also survives a panic in f).
func Try(f func()) { f() }

// ProbeInd observes what a pointer to a pointer-like value currently holds.
func ProbeInd(id int, pp any) {}
