package main

import (
	"container/list"
	"encoding/base64"
	"errors"
	"net/url"
	"path"
	"strconv"
	"strings"
	"sync"
	"vprog/lib"
	"vprog/rt"
)

type W_301_0 struct {
	v  string
	wg sync.WaitGroup
}

func (w *W_301_0) run(s string) {
	w.v = s
	w.wg.Done()
}

type H_303_2 struct{ v string }

var gx_303_3 string

func xchg_303_3(v string) string {
	old := gx_303_3
	gx_303_3 = v
	return old
}

func te_303_4(s string) (string, error) { return s, nil }

func id_304_1(s string) string                             { return s }
func apply_304_1(f func(string) string, s string) string { return f(s) }

type H_305_0 struct{ v string }

func worker_306_0(s string, out *string, wg *sync.WaitGroup) {
	*out = s
	wg.Done()
}

type G_307_0 interface {
	Get() string
	Set(string)
}
type A_307_0 struct{ v string }

func (a *A_307_0) Get() string  { return a.v }
func (a *A_307_0) Set(s string) { a.v = s }

type S_307_1 struct{ a, b string }

type M_308_2 struct {
	mu sync.Mutex
	v  string
}

type G_308_3 interface{ Get() string }
type A_308_3 struct{ v string }

func (a A_308_3) Get() string { return a.v }

type H_309_2 struct{ v string }

var gg_310_0 string

func va_310_2(xs ...string) string { return xs[0] }

type N_311_0 struct {
	v    string
	next *N_311_0
}

type H_311_2 struct{ v string }

type H_312_2 struct{ v string }

type G_312_4 interface{ Put(string) string }
type A_312_4 struct{}

func (A_312_4) Put(s string) string { return s }

func apply_313_0(f func(string), s string) { f(s) }

type H_313_1 struct{ v string }

func mk_314_0(v string) *string {
	l := v
	return &l
}

type H_314_1 struct{ v string }

func gid_314_3[T any](x T) T { return x }

type H_315_0 struct{ v string }

type M_316_0 struct {
	mu sync.Mutex
	v  string
}

type A_316_1 struct{ v string }

func (a *A_316_1) Set(s string) { a.v = s }
func (a *A_316_1) Get() string  { return a.v }

type I_317_0 struct{ v string }
type O_317_0 struct {
	n int
	in I_317_0
}

func two_317_1(s string) (string, string) { return s[:1], s[1:] }

type H_317_2 struct{ v string }

type H_318_2 struct{ v string }

type N_318_4 struct {
	v    string
	next *N_318_4
}

var gg_319_0 string

type W_321_1 struct {
	v  string
	wg sync.WaitGroup
}

func (w *W_321_1) run(s string) {
	w.v = s
	w.wg.Done()
}

type Cell_322_0[T any] struct{ v T }

func (c *Cell_322_0[T]) Set(x T) { c.v = x }
func (c *Cell_322_0[T]) Get() T  { return c.v }

type H_322_1 struct{ v string }

func two_322_3(s string) (string, string) { return "k", s }

type W_323_0 struct {
	v  string
	wg sync.WaitGroup
}

func (w *W_323_0) run(s string) {
	w.v = s
	w.wg.Done()
}

type S_324_1 struct{ a string }

type I_325_0 struct{ v string }
type O_325_0 struct {
	n int
	in I_325_0
}

type S_325_2 struct{ a, b string }

type W_326_0 struct {
	v  string
	wg sync.WaitGroup
}

func (w *W_326_0) run(s string) {
	w.v = s
	w.wg.Done()
}

func two_327_0(s string) (string, string) { return "k", s }

type H_327_2 struct{ v string }

type W_329_2 struct {
	v  string
	wg sync.WaitGroup
}

func (w *W_329_2) run(s string) {
	w.v = s
	w.wg.Done()
}

func rec_329_3(s string, n int) string {
	if n == 0 {
		return s
	}
	return rec_329_3(s, n-1)
}

func two_329_4(s string) (string, string) { return s, "k" }

func gid_330_0[T any](x T) T { return x }

func chain301() {
	x0 := rt.Source(301)
	// link gomethod
	w_301_0 := &W_301_0{}
	w_301_0.wg.Add(1)
	go w_301_0.run(x0)
	w_301_0.wg.Wait()
	x1 := w_301_0.v
	rt.Sink(301, x1)
}

func chain302() {
	x0 := rt.Source(302)
	// link goarg
	r_302_0 := make(chan string, 1)
	go func(s string) { r_302_0 <- s }(x0)
	x1 := <-r_302_0
	// link mapofslices
	m_302_1 := map[string][]string{}
	m_302_1["k"] = append(m_302_1["k"], x1)
	x2 := m_302_1["k"][0]
	// link copy
	x3 := x2
	rt.Sink(302, x3)
}

func chain303() {
	x0 := rt.Source(303)
	// link rangearrayptr
	a_303_0 := [2]string{"k", x0}
	var x1 string
	for _, e_303_0 := range &a_303_0 {
		x1 = e_303_0
	}
	// link libglobalboth
	lib.PutI_303_1(x1)
	x2 := lib.GetI_303_1()
	// link gochanofptr
	c_303_2 := make(chan *H_303_2)
	go func() { c_303_2 <- &H_303_2{v: x2} }()
	x3 := (<-c_303_2).v
	// link globalxchg
	xchg_303_3(x3)
	x4 := xchg_303_3("reset")
	// link tupleerr
	x5, err_303_4 := te_303_4(x4)
	if err_303_4 != nil {
		return
	}
	rt.Sink(303, x5)
}

func chain304() {
	x0 := rt.Source(304)
	// link max3
	x1 := max("a", "b", x0)
	// link funcparam
	x2 := apply_304_1(id_304_1, x1)
	// link gopipeline
	a_304_2 := make(chan string)
	b_304_2 := make(chan string)
	go func() { a_304_2 <- x2 }()
	go func() { b_304_2 <- <-a_304_2 }()
	x3 := <-b_304_2
	rt.Sink(304, x3)
}

func chain305() {
	x0 := rt.Source(305)
	// link godefercap
	h_305_0 := &H_305_0{}
	req_305_0 := make(chan bool)
	back_305_0 := make(chan string, 1)
	go func(p *H_305_0) {
		<-req_305_0
		back_305_0 <- p.v
	}(h_305_0)
	func() {
		defer func() { h_305_0.v = x0 }()
	}()
	req_305_0 <- true
	x1 := <-back_305_0
	rt.Sink(305, x1)
}

func chain306() {
	x0 := rt.Source(306)
	// link goworker
	var o_306_0 string
	var wg_306_0 sync.WaitGroup
	wg_306_0.Add(1)
	go worker_306_0(x0, &o_306_0, &wg_306_0)
	wg_306_0.Wait()
	x1 := o_306_0
	// link mapvalrange
	m_306_1 := map[int]string{1: x1}
	var x2 string
	for _, v_306_1 := range m_306_1 {
		x2 = v_306_1
	}
	rt.Sink(306, x2)
}

func chain307() {
	x0 := rt.Source(307)
	// link ifacesetget
	var g_307_0 G_307_0 = &A_307_0{}
	g_307_0.Set(x0)
	x1 := g_307_0.Get()
	// link structptr
	s_307_1 := &S_307_1{}
	s_307_1.a = x1
	x2 := s_307_1.a
	// link gocapwrite
	var o_307_2 string
	var wg_307_2 sync.WaitGroup
	wg_307_2.Add(1)
	go func() {
		o_307_2 = x2
		wg_307_2.Done()
	}()
	wg_307_2.Wait()
	x3 := o_307_2
	rt.Sink(307, x3)
}

func chain308() {
	x0 := rt.Source(308)
	// link iife
	x1 := func(s string) string { return s }(x0)
	// link iife
	x2 := func(s string) string { return s }(x1)
	// link gomutex
	m_308_2 := &M_308_2{}
	d_308_2 := make(chan bool)
	go func() {
		m_308_2.mu.Lock()
		m_308_2.v = x2
		m_308_2.mu.Unlock()
		d_308_2 <- true
	}()
	<-d_308_2
	m_308_2.mu.Lock()
	x3 := m_308_2.v
	m_308_2.mu.Unlock()
	// link iface2iface
	var i_308_3 any = A_308_3{v: x3}
	x4 := i_308_3.(G_308_3).Get()
	// link switchctl
	var x5 string
	switch {
	case rt.Cond(4):
		x5 = "k"
	default:
		x5 = x4
	}
	rt.Sink(308, x5)
}

func chain309() {
	x0 := rt.Source(309)
	// link mapvalue
	m_309_0 := map[string]string{}
	m_309_0["k"] = x0
	x1 := m_309_0["k"]
	// link pathjoin
	x2 := path.Join("a", x1)
	// link goselmixed
	pc_309_2 := make(chan *H_309_2, 1)
	tick_309_2 := make(chan int)
	ack_309_2 := make(chan bool)
	back_309_2 := make(chan string, 1)
	go func() {
		h := &H_309_2{}
		pc_309_2 <- h
		<-ack_309_2
		back_309_2 <- h.v
	}()
	select {
	case n := <-tick_309_2:
		_ = n
	case h := <-pc_309_2:
		h.v = x2
	}
	ack_309_2 <- true
	x3 := <-back_309_2
	// link libglobalboth
	lib.PutI_309_3(x3)
	x4 := lib.GetI_309_3()
	rt.Sink(309, x4)
}

func chain310() {
	x0 := rt.Source(310)
	// link goglobal
	var wg_310_0 sync.WaitGroup
	wg_310_0.Add(1)
	go func() {
		gg_310_0 = x0
		wg_310_0.Done()
	}()
	wg_310_0.Wait()
	x1 := gg_310_0
	// link syncmap
	var sm_310_1 sync.Map
	sm_310_1.Store("k", x1)
	v_310_1, _ := sm_310_1.Load("k")
	x2 := v_310_1.(string)
	// link variadicspread
	l_310_2 := []string{x2}
	x3 := va_310_2(l_310_2...)
	rt.Sink(310, x3)
}

func chain311() {
	x0 := rt.Source(311)
	// link listloop
	h_311_0 := &N_311_0{v: "k", next: &N_311_0{v: "k2", next: &N_311_0{v: x0}}}
	var x1 string
	for c_311_0 := h_311_0; c_311_0 != nil; c_311_0 = c_311_0.next {
		x1 = c_311_0.v
	}
	// link rangearrayptr
	a_311_1 := [2]string{"k", x1}
	var x2 string
	for _, e_311_1 := range &a_311_1 {
		x2 = e_311_1
	}
	// link goreader
	h_311_2 := &H_311_2{v: x2}
	r_311_2 := make(chan string, 1)
	go func() { r_311_2 <- h_311_2.v }()
	x3 := <-r_311_2
	rt.Sink(311, x3)
}

func chain312() {
	x0 := rt.Source(312)
	// link ptralias
	p_312_0 := new(string)
	q_312_0 := p_312_0
	*q_312_0 = x0
	x1 := *p_312_0
	// link containerlist
	l_312_1 := list.New()
	l_312_1.PushBack(x1)
	x2 := l_312_1.Front().Value.(string)
	// link gochanofptr
	c_312_2 := make(chan *H_312_2)
	go func() { c_312_2 <- &H_312_2{v: x2} }()
	x3 := (<-c_312_2).v
	// link max3
	x4 := max("a", "b", x3)
	// link ifacearg
	var g_312_4 G_312_4 = A_312_4{}
	x5 := g_312_4.Put(x4)
	rt.Sink(312, x5)
}

func chain313() {
	x0 := rt.Source(313)
	// link cbuserapply
	var o_313_0 string
	apply_313_0(func(p string) { o_313_0 = p }, x0)
	x1 := o_313_0
	// link goreader
	h_313_1 := &H_313_1{v: x1}
	r_313_1 := make(chan string, 1)
	go func() { r_313_1 <- h_313_1.v }()
	x2 := <-r_313_1
	// link loopswap
	a_313_2, b_313_2 := x2, "k"
	for i_313_2 := 0; i_313_2 < 3; i_313_2++ {
		a_313_2, b_313_2 = b_313_2, a_313_2
	}
	x3 := b_313_2
	// link mapofslices
	m_313_3 := map[string][]string{}
	m_313_3["k"] = append(m_313_3["k"], x3)
	x4 := m_313_3["k"][0]
	rt.Sink(313, x4)
}

func chain314() {
	x0 := rt.Source(314)
	// link retptrlocal
	x1 := *mk_314_0(x0)
	// link gostruct
	h_314_1 := &H_314_1{}
	var wg_314_1 sync.WaitGroup
	wg_314_1.Add(1)
	go func() {
		h_314_1.v = x1
		wg_314_1.Done()
	}()
	wg_314_1.Wait()
	x2 := h_314_1.v
	// link repeat
	x3 := strings.Repeat(x2, 2)
	// link generic
	x4 := gid_314_3(x3)
	rt.Sink(314, x4)
}

func chain315() {
	x0 := rt.Source(315)
	// link goinlinecap
	h_315_0 := &H_315_0{}
	req_315_0 := make(chan bool)
	back_315_0 := make(chan string, 1)
	go func(p *H_315_0) {
		<-req_315_0
		back_315_0 <- p.v
	}(h_315_0)
	func() { h_315_0.v = x0 }()
	req_315_0 <- true
	x1 := <-back_315_0
	rt.Sink(315, x1)
}

func chain316() {
	x0 := rt.Source(316)
	// link gomutex
	m_316_0 := &M_316_0{}
	d_316_0 := make(chan bool)
	go func() {
		m_316_0.mu.Lock()
		m_316_0.v = x0
		m_316_0.mu.Unlock()
		d_316_0 <- true
	}()
	<-d_316_0
	m_316_0.mu.Lock()
	x1 := m_316_0.v
	m_316_0.mu.Unlock()
	// link methodptr
	a_316_1 := &A_316_1{}
	a_316_1.Set(x1)
	x2 := a_316_1.Get()
	rt.Sink(316, x2)
}

func chain317() {
	x0 := rt.Source(317)
	// link structnested
	o_317_0 := O_317_0{}
	o_317_0.in.v = x0
	x1 := o_317_0.in.v
	// link tupleboth
	a_317_1, b_317_1 := two_317_1(x1)
	x2 := a_317_1 + b_317_1
	// link godefercap
	h_317_2 := &H_317_2{}
	req_317_2 := make(chan bool)
	back_317_2 := make(chan string, 1)
	go func(p *H_317_2) {
		<-req_317_2
		back_317_2 <- p.v
	}(h_317_2)
	func() {
		defer func() { h_317_2.v = x2 }()
	}()
	req_317_2 <- true
	x3 := <-back_317_2
	rt.Sink(317, x3)
}

func chain318() {
	x0 := rt.Source(318)
	// link chancommaok
	c_318_0 := make(chan string, 1)
	c_318_0 <- x0
	x1, _ := <-c_318_0
	// link rangeslice
	var x2 string
	for _, e_318_1 := range []string{x1} {
		x2 = e_318_1
	}
	// link gostruct
	h_318_2 := &H_318_2{}
	var wg_318_2 sync.WaitGroup
	wg_318_2.Add(1)
	go func() {
		h_318_2.v = x2
		wg_318_2.Done()
	}()
	wg_318_2.Wait()
	x3 := h_318_2.v
	// link urlescape
	x4 := url.QueryEscape(x3)
	// link listloop
	h_318_4 := &N_318_4{v: "k", next: &N_318_4{v: "k2", next: &N_318_4{v: x4}}}
	var x5 string
	for c_318_4 := h_318_4; c_318_4 != nil; c_318_4 = c_318_4.next {
		x5 = c_318_4.v
	}
	rt.Sink(318, x5)
}

func chain319() {
	x0 := rt.Source(319)
	// link goglobal
	var wg_319_0 sync.WaitGroup
	wg_319_0.Add(1)
	go func() {
		gg_319_0 = x0
		wg_319_0.Done()
	}()
	wg_319_0.Wait()
	x1 := gg_319_0
	// link errnew
	x2 := errors.New(x1).Error()
	rt.Sink(319, x2)
}

func chain320() {
	x0 := rt.Source(320)
	// link toupper
	x1 := strings.ToUpper(x0)
	// link quote
	x2 := strconv.Quote(x1)
	// link gopipeline
	a_320_2 := make(chan string)
	b_320_2 := make(chan string)
	go func() { a_320_2 <- x2 }()
	go func() { b_320_2 <- <-a_320_2 }()
	x3 := <-b_320_2
	rt.Sink(320, x3)
}

func chain321() {
	x0 := rt.Source(321)
	// link rangestring
	var rs_321_0 []rune
	for _, r_321_0 := range x0 {
		rs_321_0 = append(rs_321_0, r_321_0)
	}
	x1 := string(rs_321_0)
	// link gomethod
	w_321_1 := &W_321_1{}
	w_321_1.wg.Add(1)
	go w_321_1.run(x1)
	w_321_1.wg.Wait()
	x2 := w_321_1.v
	rt.Sink(321, x2)
}

func chain322() {
	x0 := rt.Source(322)
	// link genericptr
	c_322_0 := &Cell_322_0[string]{}
	c_322_0.Set(x0)
	x1 := c_322_0.Get()
	// link godefercap
	h_322_1 := &H_322_1{}
	req_322_1 := make(chan bool)
	back_322_1 := make(chan string, 1)
	go func(p *H_322_1) {
		<-req_322_1
		back_322_1 <- p.v
	}(h_322_1)
	func() {
		defer func() { h_322_1.v = x1 }()
	}()
	req_322_1 <- true
	x2 := <-back_322_1
	// link sliceexpr
	x3 := x2[0:]
	// link tuple1
	_, x4 := two_322_3(x3)
	rt.Sink(322, x4)
}

func chain323() {
	x0 := rt.Source(323)
	// link gomethod
	w_323_0 := &W_323_0{}
	w_323_0.wg.Add(1)
	go w_323_0.run(x0)
	w_323_0.wg.Wait()
	x1 := w_323_0.v
	// link containerlist
	l_323_1 := list.New()
	l_323_1.PushBack(x1)
	x2 := l_323_1.Front().Value.(string)
	rt.Sink(323, x2)
}

func chain324() {
	x0 := rt.Source(324)
	// link gochan
	c_324_0 := make(chan string)
	go func() { c_324_0 <- x0 }()
	x1 := <-c_324_0
	// link sliceofstructs
	s_324_1 := []S_324_1{{a: "k"}, {a: x1}}
	x2 := s_324_1[1].a
	rt.Sink(324, x2)
}

func chain325() {
	x0 := rt.Source(325)
	// link structnested
	o_325_0 := O_325_0{}
	o_325_0.in.v = x0
	x1 := o_325_0.in.v
	// link gopipeline
	a_325_1 := make(chan string)
	b_325_1 := make(chan string)
	go func() { a_325_1 <- x1 }()
	go func() { b_325_1 <- <-a_325_1 }()
	x2 := <-b_325_1
	// link structcopy
	s1_325_2 := S_325_2{a: x2}
	s2_325_2 := s1_325_2
	x3 := s2_325_2.a
	rt.Sink(325, x3)
}

func chain326() {
	x0 := rt.Source(326)
	// link gomethod
	w_326_0 := &W_326_0{}
	w_326_0.wg.Add(1)
	go w_326_0.run(x0)
	w_326_0.wg.Wait()
	x1 := w_326_0.v
	rt.Sink(326, x1)
}

func chain327() {
	x0 := rt.Source(327)
	// link tuple1
	_, x1 := two_327_0(x0)
	// link max3
	x2 := max("a", "b", x1)
	// link goselmixed
	pc_327_2 := make(chan *H_327_2, 1)
	tick_327_2 := make(chan int)
	ack_327_2 := make(chan bool)
	back_327_2 := make(chan string, 1)
	go func() {
		h := &H_327_2{}
		pc_327_2 <- h
		<-ack_327_2
		back_327_2 <- h.v
	}()
	select {
	case n := <-tick_327_2:
		_ = n
	case h := <-pc_327_2:
		h.v = x2
	}
	ack_327_2 <- true
	x3 := <-back_327_2
	rt.Sink(327, x3)
}

func chain328() {
	x0 := rt.Source(328)
	// link max2
	x1 := max(x0, "a")
	// link gomapshared
	m_328_1 := map[string]string{}
	var wg_328_1 sync.WaitGroup
	wg_328_1.Add(1)
	go func() {
		m_328_1["k"] = x1
		wg_328_1.Done()
	}()
	wg_328_1.Wait()
	x2 := m_328_1["k"]
	// link mapvalrange
	m_328_2 := map[int]string{1: x2}
	var x3 string
	for _, v_328_2 := range m_328_2 {
		x3 = v_328_2
	}
	rt.Sink(328, x3)
}

func chain329() {
	x0 := rt.Source(329)
	// link base64rt
	e_329_0 := base64.StdEncoding.EncodeToString([]byte(x0))
	d_329_0, _ := base64.StdEncoding.DecodeString(e_329_0)
	x1 := string(d_329_0)
	// link max2
	x2 := max(x1, "a")
	// link gomethod
	w_329_2 := &W_329_2{}
	w_329_2.wg.Add(1)
	go w_329_2.run(x2)
	w_329_2.wg.Wait()
	x3 := w_329_2.v
	// link recursion
	x4 := rec_329_3(x3, 3)
	// link tuple0
	x5, _ := two_329_4(x4)
	rt.Sink(329, x5)
}

func chain330() {
	x0 := rt.Source(330)
	// link generic
	x1 := gid_330_0(x0)
	// link gomapshared
	m_330_1 := map[string]string{}
	var wg_330_1 sync.WaitGroup
	wg_330_1.Add(1)
	go func() {
		m_330_1["k"] = x1
		wg_330_1.Done()
	}()
	wg_330_1.Wait()
	x2 := m_330_1["k"]
	// link trimspace
	x3 := strings.TrimSpace(x2)
	rt.Sink(330, x3)
}

func main() {
	defer rt.Done()
	rt.Begin(301)
	chain301()
	rt.Begin(302)
	chain302()
	rt.Begin(303)
	chain303()
	rt.Begin(304)
	chain304()
	rt.Begin(305)
	chain305()
	rt.Begin(306)
	chain306()
	rt.Begin(307)
	chain307()
	rt.Begin(308)
	chain308()
	rt.Begin(309)
	chain309()
	rt.Begin(310)
	chain310()
	rt.Begin(311)
	chain311()
	rt.Begin(312)
	chain312()
	rt.Begin(313)
	chain313()
	rt.Begin(314)
	chain314()
	rt.Begin(315)
	chain315()
	rt.Begin(316)
	chain316()
	rt.Begin(317)
	chain317()
	rt.Begin(318)
	chain318()
	rt.Begin(319)
	chain319()
	rt.Begin(320)
	chain320()
	rt.Begin(321)
	chain321()
	rt.Begin(322)
	chain322()
	rt.Begin(323)
	chain323()
	rt.Begin(324)
	chain324()
	rt.Begin(325)
	chain325()
	rt.Begin(326)
	chain326()
	rt.Begin(327)
	chain327()
	rt.Begin(328)
	chain328()
	rt.Begin(329)
	chain329()
	rt.Begin(330)
	chain330()
}
