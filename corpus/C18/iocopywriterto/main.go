package main

import (
	"bytes"
	"io"
	"vprog/rt"
)

type R_1 struct{ done bool }

func (r *R_1) Read(p []byte) (int, error) { rt.Enter(20); return 0, io.EOF }
func (r *R_1) WriteTo(w io.Writer) (int64, error) {
	rt.Enter(21)
	return 0, nil
}

// form iocopywriterto
func case1() {
	rt.Enter(39)
	var bb_1 bytes.Buffer
	_, _ = io.Copy(&bb_1, &R_1{})
}

func main() {
	rt.Enter(1)
	defer rt.Done()
	case1()
}
