package main

import (
	"vprog/rt"
)

type I_1 interface{ m() }
type J_1 interface {
	m()
	k()
}
type T_1 struct{ n int }

func (t T_1) m() { rt.Enter(20) }
func (t T_1) k() { rt.Enter(21) }

// form iface2ifacenarrow
func case1() {
	rt.Enter(39)
	var i_1 I_1 = T_1{}
	if j_1, ok := i_1.(J_1); ok {
		j_1.k()
	}
}

func main() {
	rt.Enter(1)
	defer rt.Done()
	case1()
}
