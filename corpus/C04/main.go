package main

import (
	"vprog/lib"
	"vprog/lib/sub"
	"vprog/libx"
	"vprog/rt"
)

// Fetch is a candidate function.
func Fetch(s string) string { return s }

// FetchAll is a candidate function.
func FetchAll(s string) string { return s }

// Load is a candidate function.
func Load(s string) string { return s }

// Store is a candidate receiver type.
type Store struct{ N int }

// Fetch is a candidate method.
func (r Store) Fetch(s string) string { return s }

// Load is a candidate method.
func (r Store) Load(s string) string { return s }

// Cache is a candidate receiver type.
type Cache struct{ N int }

// Fetch is a candidate method.
func (r *Cache) Fetch(s string) string { return s }

// Getter is the interface candidates are invoked through.
type Getter interface{ Fetch(string) string }

func source_role_1() {
	x := Fetch("k")
	rt.Sink(1, x)
}

func sink_role_1() {
	y := rt.Source(1)
	_ = Fetch(y)
}

func source_role_2() {
	x := FetchAll("k")
	rt.Sink(2, x)
}

func sink_role_2() {
	y := rt.Source(2)
	_ = FetchAll(y)
}

func source_role_3() {
	x := Load("k")
	rt.Sink(3, x)
}

func sink_role_3() {
	y := rt.Source(3)
	_ = Load(y)
}

func pick4_source(f func(string) string) func(string) string { return f }

func source_role_4() {
	f := pick4_source(Fetch)
	x := f("k")
	rt.Sink(4, x)
}

func pick4_sink(f func(string) string) func(string) string { return f }

func sink_role_4() {
	y := rt.Source(4)
	f := pick4_sink(Fetch)
	_ = f(y)
}

func source_role_5() {
	x := func(a string) string { return Fetch(a) }("k")
	rt.Sink(5, x)
}

func sink_role_5() {
	y := rt.Source(5)
	_ = func(a string) string { return Fetch(a) }(y)
}

func sink_role_6() {
	y := rt.Source(6)
	defer Fetch(y)
}

func source_role_7() {
	x := Store{}.Fetch("k")
	rt.Sink(7, x)
}

func sink_role_7() {
	y := rt.Source(7)
	_ = Store{}.Fetch(y)
}

func source_role_8() {
	x := Store{}.Load("k")
	rt.Sink(8, x)
}

func sink_role_8() {
	y := rt.Source(8)
	_ = Store{}.Load(y)
}

func source_role_9() {
	x := (&Cache{}).Fetch("k")
	rt.Sink(9, x)
}

func sink_role_9() {
	y := rt.Source(9)
	_ = (&Cache{}).Fetch(y)
}

func source_role_10() {
	mv := Store{}.Fetch
	x := mv("k")
	rt.Sink(10, x)
}

func sink_role_10() {
	y := rt.Source(10)
	mv := Store{}.Fetch
	_ = mv(y)
}

func source_role_11() {
	me := Store.Fetch
	x := me(Store{}, "k")
	rt.Sink(11, x)
}

func sink_role_11() {
	y := rt.Source(11)
	me := Store.Fetch
	_ = me(Store{}, y)
}

func sink_role_12() {
	y := rt.Source(12)
	defer (&Cache{}).Fetch(y)
}

func source_role_13() {
	var g Getter = Store{}
	x := g.Fetch("k")
	rt.Sink(13, x)
}

func sink_role_13() {
	y := rt.Source(13)
	var g Getter = Store{}
	_ = g.Fetch(y)
}

func source_role_14() {
	x := lib.Fetch("k")
	rt.Sink(14, x)
}

func sink_role_14() {
	y := rt.Source(14)
	_ = lib.Fetch(y)
}

func source_role_15() {
	x := lib.FetchAll("k")
	rt.Sink(15, x)
}

func sink_role_15() {
	y := rt.Source(15)
	_ = lib.FetchAll(y)
}

func source_role_16() {
	x := lib.Load("k")
	rt.Sink(16, x)
}

func sink_role_16() {
	y := rt.Source(16)
	_ = lib.Load(y)
}

func pick17_source(f func(string) string) func(string) string { return f }

func source_role_17() {
	f := pick17_source(lib.Fetch)
	x := f("k")
	rt.Sink(17, x)
}

func pick17_sink(f func(string) string) func(string) string { return f }

func sink_role_17() {
	y := rt.Source(17)
	f := pick17_sink(lib.Fetch)
	_ = f(y)
}

func source_role_18() {
	x := func(a string) string { return lib.Fetch(a) }("k")
	rt.Sink(18, x)
}

func sink_role_18() {
	y := rt.Source(18)
	_ = func(a string) string { return lib.Fetch(a) }(y)
}

func sink_role_19() {
	y := rt.Source(19)
	defer lib.Fetch(y)
}

func source_role_20() {
	x := lib.Store{}.Fetch("k")
	rt.Sink(20, x)
}

func sink_role_20() {
	y := rt.Source(20)
	_ = lib.Store{}.Fetch(y)
}

func source_role_21() {
	x := lib.Store{}.Load("k")
	rt.Sink(21, x)
}

func sink_role_21() {
	y := rt.Source(21)
	_ = lib.Store{}.Load(y)
}

func source_role_22() {
	x := (&lib.Cache{}).Fetch("k")
	rt.Sink(22, x)
}

func sink_role_22() {
	y := rt.Source(22)
	_ = (&lib.Cache{}).Fetch(y)
}

func source_role_23() {
	mv := lib.Store{}.Fetch
	x := mv("k")
	rt.Sink(23, x)
}

func sink_role_23() {
	y := rt.Source(23)
	mv := lib.Store{}.Fetch
	_ = mv(y)
}

func source_role_24() {
	me := lib.Store.Fetch
	x := me(lib.Store{}, "k")
	rt.Sink(24, x)
}

func sink_role_24() {
	y := rt.Source(24)
	me := lib.Store.Fetch
	_ = me(lib.Store{}, y)
}

func sink_role_25() {
	y := rt.Source(25)
	defer (&lib.Cache{}).Fetch(y)
}

func source_role_26() {
	var g lib.Getter = lib.Store{}
	x := g.Fetch("k")
	rt.Sink(26, x)
}

func sink_role_26() {
	y := rt.Source(26)
	var g lib.Getter = lib.Store{}
	_ = g.Fetch(y)
}

func source_role_27() {
	x := sub.Fetch("k")
	rt.Sink(27, x)
}

func sink_role_27() {
	y := rt.Source(27)
	_ = sub.Fetch(y)
}

func source_role_28() {
	x := sub.FetchAll("k")
	rt.Sink(28, x)
}

func sink_role_28() {
	y := rt.Source(28)
	_ = sub.FetchAll(y)
}

func source_role_29() {
	x := sub.Load("k")
	rt.Sink(29, x)
}

func sink_role_29() {
	y := rt.Source(29)
	_ = sub.Load(y)
}

func pick30_source(f func(string) string) func(string) string { return f }

func source_role_30() {
	f := pick30_source(sub.Fetch)
	x := f("k")
	rt.Sink(30, x)
}

func pick30_sink(f func(string) string) func(string) string { return f }

func sink_role_30() {
	y := rt.Source(30)
	f := pick30_sink(sub.Fetch)
	_ = f(y)
}

func source_role_31() {
	x := func(a string) string { return sub.Fetch(a) }("k")
	rt.Sink(31, x)
}

func sink_role_31() {
	y := rt.Source(31)
	_ = func(a string) string { return sub.Fetch(a) }(y)
}

func sink_role_32() {
	y := rt.Source(32)
	defer sub.Fetch(y)
}

func source_role_33() {
	x := sub.Store{}.Fetch("k")
	rt.Sink(33, x)
}

func sink_role_33() {
	y := rt.Source(33)
	_ = sub.Store{}.Fetch(y)
}

func source_role_34() {
	x := sub.Store{}.Load("k")
	rt.Sink(34, x)
}

func sink_role_34() {
	y := rt.Source(34)
	_ = sub.Store{}.Load(y)
}

func source_role_35() {
	x := (&sub.Cache{}).Fetch("k")
	rt.Sink(35, x)
}

func sink_role_35() {
	y := rt.Source(35)
	_ = (&sub.Cache{}).Fetch(y)
}

func source_role_36() {
	mv := sub.Store{}.Fetch
	x := mv("k")
	rt.Sink(36, x)
}

func sink_role_36() {
	y := rt.Source(36)
	mv := sub.Store{}.Fetch
	_ = mv(y)
}

func source_role_37() {
	me := sub.Store.Fetch
	x := me(sub.Store{}, "k")
	rt.Sink(37, x)
}

func sink_role_37() {
	y := rt.Source(37)
	me := sub.Store.Fetch
	_ = me(sub.Store{}, y)
}

func sink_role_38() {
	y := rt.Source(38)
	defer (&sub.Cache{}).Fetch(y)
}

func source_role_39() {
	var g sub.Getter = sub.Store{}
	x := g.Fetch("k")
	rt.Sink(39, x)
}

func sink_role_39() {
	y := rt.Source(39)
	var g sub.Getter = sub.Store{}
	_ = g.Fetch(y)
}

func source_role_40() {
	x := libx.Fetch("k")
	rt.Sink(40, x)
}

func sink_role_40() {
	y := rt.Source(40)
	_ = libx.Fetch(y)
}

func source_role_41() {
	x := libx.FetchAll("k")
	rt.Sink(41, x)
}

func sink_role_41() {
	y := rt.Source(41)
	_ = libx.FetchAll(y)
}

func source_role_42() {
	x := libx.Load("k")
	rt.Sink(42, x)
}

func sink_role_42() {
	y := rt.Source(42)
	_ = libx.Load(y)
}

func pick43_source(f func(string) string) func(string) string { return f }

func source_role_43() {
	f := pick43_source(libx.Fetch)
	x := f("k")
	rt.Sink(43, x)
}

func pick43_sink(f func(string) string) func(string) string { return f }

func sink_role_43() {
	y := rt.Source(43)
	f := pick43_sink(libx.Fetch)
	_ = f(y)
}

func source_role_44() {
	x := func(a string) string { return libx.Fetch(a) }("k")
	rt.Sink(44, x)
}

func sink_role_44() {
	y := rt.Source(44)
	_ = func(a string) string { return libx.Fetch(a) }(y)
}

func sink_role_45() {
	y := rt.Source(45)
	defer libx.Fetch(y)
}

func source_role_46() {
	x := libx.Store{}.Fetch("k")
	rt.Sink(46, x)
}

func sink_role_46() {
	y := rt.Source(46)
	_ = libx.Store{}.Fetch(y)
}

func source_role_47() {
	x := libx.Store{}.Load("k")
	rt.Sink(47, x)
}

func sink_role_47() {
	y := rt.Source(47)
	_ = libx.Store{}.Load(y)
}

func source_role_48() {
	x := (&libx.Cache{}).Fetch("k")
	rt.Sink(48, x)
}

func sink_role_48() {
	y := rt.Source(48)
	_ = (&libx.Cache{}).Fetch(y)
}

func source_role_49() {
	mv := libx.Store{}.Fetch
	x := mv("k")
	rt.Sink(49, x)
}

func sink_role_49() {
	y := rt.Source(49)
	mv := libx.Store{}.Fetch
	_ = mv(y)
}

func source_role_50() {
	me := libx.Store.Fetch
	x := me(libx.Store{}, "k")
	rt.Sink(50, x)
}

func sink_role_50() {
	y := rt.Source(50)
	me := libx.Store.Fetch
	_ = me(libx.Store{}, y)
}

func sink_role_51() {
	y := rt.Source(51)
	defer (&libx.Cache{}).Fetch(y)
}

func source_role_52() {
	var g libx.Getter = libx.Store{}
	x := g.Fetch("k")
	rt.Sink(52, x)
}

func sink_role_52() {
	y := rt.Source(52)
	var g libx.Getter = libx.Store{}
	_ = g.Fetch(y)
}

func source_role_53() {
	var g lib.Getter = Store{}
	x := g.Fetch("k")
	rt.Sink(53, x)
}

func sink_role_53() {
	y := rt.Source(53)
	var g lib.Getter = Store{}
	_ = g.Fetch(y)
}

func source_role_54() {
	var g Getter = lib.Store{}
	x := g.Fetch("k")
	rt.Sink(54, x)
}

func sink_role_54() {
	y := rt.Source(54)
	var g Getter = lib.Store{}
	_ = g.Fetch(y)
}

var _ = lib.Fetch
var _ = sub.Fetch
var _ = libx.Fetch

func main() {
	defer rt.Done()
	source_role_1()
	sink_role_1()
	source_role_2()
	sink_role_2()
	source_role_3()
	sink_role_3()
	source_role_4()
	sink_role_4()
	source_role_5()
	sink_role_5()
	sink_role_6()
	source_role_7()
	sink_role_7()
	source_role_8()
	sink_role_8()
	source_role_9()
	sink_role_9()
	source_role_10()
	sink_role_10()
	source_role_11()
	sink_role_11()
	sink_role_12()
	source_role_13()
	sink_role_13()
	source_role_14()
	sink_role_14()
	source_role_15()
	sink_role_15()
	source_role_16()
	sink_role_16()
	source_role_17()
	sink_role_17()
	source_role_18()
	sink_role_18()
	sink_role_19()
	source_role_20()
	sink_role_20()
	source_role_21()
	sink_role_21()
	source_role_22()
	sink_role_22()
	source_role_23()
	sink_role_23()
	source_role_24()
	sink_role_24()
	sink_role_25()
	source_role_26()
	sink_role_26()
	source_role_27()
	sink_role_27()
	source_role_28()
	sink_role_28()
	source_role_29()
	sink_role_29()
	source_role_30()
	sink_role_30()
	source_role_31()
	sink_role_31()
	sink_role_32()
	source_role_33()
	sink_role_33()
	source_role_34()
	sink_role_34()
	source_role_35()
	sink_role_35()
	source_role_36()
	sink_role_36()
	source_role_37()
	sink_role_37()
	sink_role_38()
	source_role_39()
	sink_role_39()
	source_role_40()
	sink_role_40()
	source_role_41()
	sink_role_41()
	source_role_42()
	sink_role_42()
	source_role_43()
	sink_role_43()
	source_role_44()
	sink_role_44()
	sink_role_45()
	source_role_46()
	sink_role_46()
	source_role_47()
	sink_role_47()
	source_role_48()
	sink_role_48()
	source_role_49()
	sink_role_49()
	source_role_50()
	sink_role_50()
	sink_role_51()
	source_role_52()
	sink_role_52()
	source_role_53()
	sink_role_53()
	source_role_54()
	sink_role_54()
}
