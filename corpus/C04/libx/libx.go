// Package libx holds candidate functions.
package libx

// Fetch is a candidate function.
func Fetch(s string) string { return s }

// FetchAll is a candidate function.
func FetchAll(s string) string { return s }

// Load is a candidate function.
func Load(s string) string { return s }

// Store is a candidate receiver type.
type Store struct{ N int }

// Fetch is a candidate method.
func (r Store) Fetch(s string) string { return s }

// Load is a candidate method.
func (r Store) Load(s string) string { return s }

// Cache is a candidate receiver type.
type Cache struct{ N int }

// Fetch is a candidate method.
func (r *Cache) Fetch(s string) string { return s }

// Getter is the interface candidates are invoked through.
type Getter interface{ Fetch(string) string }

