package main

import (
	"encoding/base64"
	"encoding/json"
	"vprog/rt"
)

type J_2_0 struct{ A string }

func chain1() {
	x0 := rt.Source(1)
	// link base64rt
	e_1_0 := base64.StdEncoding.EncodeToString([]byte(x0))
	d_1_0, _ := base64.StdEncoding.DecodeString(e_1_0)
	x1 := string(d_1_0)
	rt.Sink(1, x1)
}

func chain2() {
	x0 := rt.Source(2)
	// link jsonroundtrip
	bs_2_0, _ := json.Marshal(J_2_0{A: x0})
	var j_2_0 J_2_0
	_ = json.Unmarshal(bs_2_0, &j_2_0)
	x1 := j_2_0.A
	rt.Sink(2, x1)
}

func main() {
	defer rt.Done()
	rt.Begin(1)
	chain1()
	rt.Begin(2)
	chain2()
}
