package main

import (
	"sync"
	"vprog/rt"
)

func chain1() {
	x0 := rt.Source(1)
	// link syncmap
	var sm_1_0 sync.Map
	sm_1_0.Store("k", x0)
	v_1_0, _ := sm_1_0.Load("k")
	x1 := v_1_0.(string)
	rt.Sink(1, x1)
}

func main() {
	defer rt.Done()
	rt.Begin(1)
	chain1()
}
