package main

import (
	"strings"
	"vprog/rt"
)

var gx_8_0 string

func xchg_8_0(v string) string {
	old := gx_8_0
	gx_8_0 = v
	return old
}

type GX_9_0 struct{ v string }

var gxp_9_0 = &GX_9_0{}

func swap_9_0(n *GX_9_0) *GX_9_0 {
	old := gxp_9_0
	gxp_9_0 = n
	return old
}

func apply_10_0(f func(string), s string) { f(s) }

func chain1() {
	x0 := rt.Source(1)
	// sink form @sinkdefer
	defer rt.Sink(1, x0)
}

func chain2() {
	x0 := rt.Source(2)
	// sink form @sinkdeferclosure
	defer func() {
		rt.Sink(2, x0)
	}()
}

func chain3() {
	x0 := rt.Source(3)
	// sink form @sinkgo
	d_3_s := make(chan bool)
	go func(s string) {
		rt.Sink(3, s)
		d_3_s <- true
	}(x0)
	<-d_3_s
}

func chain4() {
	x0 := rt.Source(4)
	// sink form @sinkloop
	for i_4_s := 0; i_4_s < 2; i_4_s++ {
		rt.Sink(4, x0)
	}
}

func chain5() {
	x0 := rt.Source(5)
	// sink form @sinkcbuser
	func(f func(string)) { f(x0) }(func(p string) {
		rt.Sink(5, p)
	})
}

func chain6() {
	x0 := rt.Source(6)
	// sink form @sinkcbmap
	_ = strings.Map(func(r rune) rune {
		rt.SinkR(6, r)
		return r
	}, x0)
}

func chain7() {
	x0 := rt.Source(7)
	// sink form @sinkcbindexfunc
	_ = strings.IndexFunc(x0, func(r rune) bool {
		rt.SinkR(7, r)
		return false
	})
}

func chain8() {
	x0 := rt.Source(8)
	// link globalxchg
	xchg_8_0(x0)
	x1 := xchg_8_0("reset")
	rt.Sink(8, x1)
}

func chain9() {
	x0 := rt.Source(9)
	// link globalxchgptr
	swap_9_0(&GX_9_0{v: x0})
	x1 := swap_9_0(&GX_9_0{}).v
	rt.Sink(9, x1)
}

func chain10() {
	x0 := rt.Source(10)
	// link cbuserapply
	var o_10_0 string
	apply_10_0(func(p string) { o_10_0 = p }, x0)
	x1 := o_10_0
	rt.Sink(10, x1)
}

func main() {
	defer rt.Done()
	rt.Begin(1)
	chain1()
	rt.Begin(2)
	chain2()
	rt.Begin(3)
	chain3()
	rt.Begin(4)
	chain4()
	rt.Begin(5)
	chain5()
	rt.Begin(6)
	chain6()
	rt.Begin(7)
	chain7()
	rt.Begin(8)
	chain8()
	rt.Begin(9)
	chain9()
	rt.Begin(10)
	chain10()
}
