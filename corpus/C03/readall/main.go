package main

import (
	"io"
	"strings"
	"vprog/rt"
)

func chain1() {
	x0 := rt.Source(1)
	// link readall
	bs_1_0, _ := io.ReadAll(strings.NewReader(x0))
	x1 := string(bs_1_0)
	rt.Sink(1, x1)
}

func main() {
	defer rt.Done()
	rt.Begin(1)
	chain1()
}
