package main

import (
	"strings"
	"vprog/rt"
)

func chain1() {
	x0 := rt.Source(1)
	// link stringsmap
	x1 := strings.Map(func(r rune) rune { return r }, x0)
	rt.Sink(1, x1)
}

func main() {
	defer rt.Done()
	rt.Begin(1)
	chain1()
}
