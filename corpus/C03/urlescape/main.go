package main

import (
	"net/url"
	"vprog/rt"
)

func chain1() {
	x0 := rt.Source(1)
	// link urlescape
	x1 := url.QueryEscape(x0)
	rt.Sink(1, x1)
}

func main() {
	defer rt.Done()
	rt.Begin(1)
	chain1()
}
