package main

import (
	"time"

	"vprog/rt"
)

// Obj is the object shared between goroutines.
type Obj struct {
	a int
	p *int
	m map[string]int
	s []int
	i any
	n *Obj
}

var src2 = []int{1, 2}

func useInt(int)    {}
func useStr(string) {}

func workerI_1(i any, done chan bool) {
	g_1 := i.(*Obj)
	g_1.a = 7 // access:g:1
	done <- true
}

// scenario 1: share=iface goroutine=fieldstore main=fieldstore
func scen1() {
	x_1 := 1
	o_1 := &Obj{p: &x_1, m: map[string]int{"k": 1}, s: make([]int, 2, 8), n: &Obj{}}
	done_1 := make(chan bool, 1)
	var i_1 any = o_1
	go workerI_1(i_1, done_1)
	time.Sleep(3 * time.Millisecond)
	o_1.a = 7 // access:m:1
	<-done_1
}

func main() {
	defer rt.Done()
	scen1()
}
