package main

import (
	"time"

	"vprog/rt"
)

// Obj is the object shared between goroutines.
type Obj struct {
	a int
	p *int
	m map[string]int
	s []int
	i any
	n *Obj
}

var src2 = []int{1, 2}

func useInt(int)    {}
func useStr(string) {}

var pub_1 *Obj

func publish_1(o *Obj) { pub_1 = o }

func deferred_1(o *Obj) {
	defer publish_1(o)
}

func workerP_1(done chan bool) {
	g_1 := pub_1
	g_1.a = 7 // access:g:1
	done <- true
}

// scenario 1: share=deferpublish goroutine=fieldstore main=fieldstore
func scen1() {
	x_1 := 1
	o_1 := &Obj{p: &x_1, m: map[string]int{"k": 1}, s: make([]int, 2, 8), n: &Obj{}}
	done_1 := make(chan bool, 1)
	deferred_1(o_1)
	go workerP_1(done_1)
	time.Sleep(3 * time.Millisecond)
	o_1.a = 7 // access:m:1
	<-done_1
}

func main() {
	defer rt.Done()
	scen1()
}
