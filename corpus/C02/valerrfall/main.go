package main

import (
	"vprog/rt"
)

func chain1() {
	x0 := rt.Source(1)
	// link valerrfall
	if err_1_0 := rt.ValidateErr(x0); err_1_0 != nil {
		rt.Nop()
	}
	x1 := x0
	rt.Sink(1, x1)
}

func main() {
	defer rt.Done()
	rt.Begin(1)
	chain1()
}
