#!/bin/bash
# Entry point of every check:  ./run.sh <property-id> <quick|thorough>   |  ./run.sh setup  |  ./run.sh replay <dir>
# Rebuilds the driver against /repo's CURRENT working tree (hooks on: -tags verif) before every check.
set -u
cd "$(dirname "$0")"
export GOFLAGS=-mod=mod GOPROXY=off GOSUMDB=off GOTOOLCHAIN=local
export VERIF_DIR="$(pwd)"
ID=${1:-}
TIER=${2:-${VERIF_TIER:-quick}}
mkdir -p bin evidence

# Development aid: VERIF_REPO=<scratch worktree> builds the driver against that tree instead of /repo
# (and VERIF_OUT=<dir> keeps its evidence/replays away from the committed ones). Registered commands never set these.
MODFLAG=""
SUF=""
if [ -n "${VERIF_REPO:-}" ]; then
  SUF="-alt$$"
  sed "s#=> /repo#=> $VERIF_REPO#" harness/go.mod > "bin/alt.$$.mod"; cp harness/go.sum "bin/alt.$$.sum"
  MODFLAG="-modfile=$(pwd)/bin/alt.$$.mod"
  trap 'rm -f bin/alt.$$.mod bin/alt.$$.sum bin/vdriver$SUF bin/vdriver-race$SUF' EXIT
fi

build() {  # $1 = output name, rest = extra go build flags
  local out=$1; shift
  ( cd harness && go build $MODFLAG -tags verif "$@" -o "../bin/$out.$$" ./cmd/vdriver ) >bin/build.$$.log 2>&1
  local rc=$?
  if [ $rc -ne 0 ]; then
    echo "BUILD FAILED (driver against /repo working tree):"; cat bin/build.$$.log; rm -f bin/build.$$.log "bin/$out.$$"; return 2
  fi
  rm -f bin/build.$$.log
  mv -f "bin/$out.$$" "bin/$out"
}

case "$ID" in
  setup)
    build vdriver || exit 2
    echo "setup ok"; exit 0 ;;
  replay)
    build vdriver$SUF || exit 2
    bin/vdriver$SUF replay "$TIER"; exit $? ;;
  C20)
    build vdriver-race$SUF -race || exit 2
    build vdriver$SUF || exit 2
    bin/vdriver$SUF C20 "$TIER"; exit $? ;;
  C*)
    build vdriver$SUF || exit 2
    bin/vdriver$SUF "$ID" "$TIER"; exit $? ;;
  *)
    echo "usage: ./run.sh <C01..C20|setup|replay> [quick|thorough|<replay dir>]"; exit 2 ;;
esac
