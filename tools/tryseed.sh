#!/bin/bash
# tools/tryseed.sh <patch.diff> <check-id> [tier]  — applies a seeded change to a scratch worktree of /repo HEAD,
# runs the check against it (VERIF_REPO), prints the verdict, removes the worktree.
set -u
PATCH=$(readlink -f "$1"); ID=$2; TIER=${3:-quick}
WT=$(mktemp -d /tmp/wt-try-XXXXXX); OUT=$(mktemp -d /tmp/vout-try-XXXXXX)
git -C /repo worktree add -q --detach "$WT" HEAD || exit 2
if ! git -C "$WT" apply "$PATCH"; then echo "PATCH DOES NOT APPLY"; git -C /repo worktree remove --force "$WT"; exit 2; fi
cd /verif && VERIF_REPO="$WT" VERIF_OUT="$OUT" ./run.sh "$ID" "$TIER" > "$OUT/log.txt" 2>&1
RC=$?
echo "seed=$PATCH check=$ID tier=$TIER exit=$RC"
grep -E "^VIOLATION|^SUMMARY|BUILD FAILED" "$OUT/log.txt" | head -5
grep -A1 "^VIOLATION" "$OUT/log.txt" | grep "sig=" | head -3 | cut -c1-300
git -C /repo worktree remove --force "$WT"; rm -rf "$OUT"
exit $RC
