#!/bin/bash
# tools/confirmseed.sh <seed dir containing patch.diff and demo/run.sh> <go test package patterns...>
# Confirms in a scratch worktree: builds, listed packages' existing tests pass with the patch, demo fails with the
# patch and passes without it. Prints a one-line JSON result.
set -u
export GOFLAGS=-mod=mod GOPROXY=off GOSUMDB=off GOTOOLCHAIN=local
SD=$(readlink -f "$1"); shift
WT=$(mktemp -d /tmp/wt-confirm-XXXXXX)
git -C /repo worktree add -q --detach "$WT" HEAD || exit 2
cd "$WT"
sh "$SD/demo/run.sh" "$WT" >"$SD/.demo_clean.log" 2>&1; CLEAN=$?
git apply "$SD/patch.diff" || { echo '{"applies":false}'; git -C /repo worktree remove --force "$WT"; exit 2; }
go build ./... >"$SD/.build.log" 2>&1; BUILD=$?
go test -vet=off -count=1 -timeout 120m "$@" >"$SD/.tests.log" 2>&1; TESTS=$?
sh "$SD/demo/run.sh" "$WT" >"$SD/.demo_patched.log" 2>&1; PATCHED=$?
git checkout -q -- . ; git clean -fdq
echo "{\"applies\":true,\"build_rc\":$BUILD,\"tests_rc\":$TESTS,\"tests\":\"$*\",\"demo_rc_clean\":$CLEAN,\"demo_rc_patched\":$PATCHED}" | tee "$SD/.confirm.json"
git -C /repo worktree remove --force "$WT"
