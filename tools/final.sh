#!/bin/bash
# tools/final.sh [tier] [ids…] — runs the registered commands (default: quick tier of all 20 checks) exactly as MANIFEST.json
# registers them (evidence and replays under /verif), one after the other; prints a table.
TIER=${1:-quick}; shift
IDS=${@:-C16 C10 C12 C18 C19 C04 C11 C15 C09 C14 C13 C17 C08 C05 C02 C01 C03 C06 C07 C20}
OUT=/tmp/final-$TIER; mkdir -p $OUT
cd /verif
for id in $IDS; do
  t0=$(date +%s)
  ./run.sh $id $TIER > $OUT/$id.log 2>&1
  rc=$?
  echo "$id tier=$TIER exit=$rc wall=$(( $(date +%s)-t0 ))s viol=$(grep -c '^VIOLATION' $OUT/$id.log) known=$(grep -c '^KNOWN-FINDING' $OUT/$id.log) $(grep '^SUMMARY' $OUT/$id.log | sed 's/.*evaluations/evaluations/')" | tee -a $OUT/TABLE.txt
done
