#!/usr/bin/env python3
"""Regenerates /verif/MANIFEST.json from the table below (kept in one place so it stays valid)."""
import json, os, subprocess
ROOT = os.path.dirname(os.path.dirname(os.path.abspath(__file__)))
ids = [json.loads(l)["id"] for l in open(os.path.join(ROOT, "properties.jsonl"))]

# id -> (technique, level text, level note, design_ref)
CLAIMED = {
 "C01": ("runtime monitoring: native execution of generated chain programs with a marker-tracking monitor runtime; observed source->sink events must be contained in taint.Analyze reports under every configuration",
         "held on the executions observed: every (source site, sink site) pair at which the monitor saw the source's marker arrive, over all 2^6 opaque inputs of each generated chain, is reported under each soundness-preserving configuration; misses are attributed through re-executed minimal sub-chains to listed known findings or reported. Exploration, not proof: constructs outside the link library and longer interactions are not covered.",
         "Go toolchain and runtime; the stub/native end-point functions differ only in bodies irrelevant by specification; marker containment implies explicit flow; mechanical fragment guard (waives, never accuses)",
         "DESIGN.md §2, §7 C01"),
 "C16": ("runtime monitoring: every enumerated function body is executed natively under every decision tape (all CFG paths up to the tape length); the recorded (exit, executed-defer-sequence) sets and the 'a defer ran twice' flag are compared with defers.AnalyzeFunction",
         "exhaustive over all function bodies up to the stated size bound (every path of each, by lazy tape enumeration up to 12 decisions, 18 before a reported stack is called spurious), sampled beyond: per exit the reported stack set equals the observed set, and bounded <=> no execution repeats a defer statement. Exact (both inclusions) on everything enumerated; nothing is claimed for larger bodies than those sampled.",
         "Go toolchain; opaque decisions make every CFG path feasible; exits/defer statements identified through constant marker arguments in the SSA",
         "DESIGN.md §7 C16"),
 "C10": ("runtime monitoring of the tool as a black box: generated one-call programs whose function bodies contradict their specification matrix; the reported flow set is compared with the matrix in both directions",
         "held on every specification matrix enumerated: exhaustive over all 0/1 Args/Rets tables for arity<=3, results<=2 in the thorough tier (seeded sample of the large shapes in quick), each on one of five call forms (direct, method, interface invoke with conflicting implementation specs, function value, deferred) and with a body that says the opposite of the table; flow reported IFF listed.",
         "the specification itself is the oracle (no execution needed: the statement is 'exactly as written'); diagonal (argument to itself) not checked; bodies do not alias parameters and results",
         "DESIGN.md §7 C10"),
 "C12": ("runtime monitoring: native execution of dispatch programs with an Enter monitor that reads the run-time stack (callee, caller, call-site line, kind); events compared with ReachableFunctions(), pointer call-graph edges and ResolveCallee",
         "held on the executions observed: for ~75 call forms (static, method, invoke, function/method values and expressions, closures, defer, go, generics, promoted methods, interface assertions, std callbacks, cross-package, init) every executed function is in the analyzer's reachable set and every observed caller-site->callee transfer is a call-graph edge through synthetic wrappers only, and in ResolveCallee's answer.",
         "Go runtime stack frames are exact with inlining disabled in the generated module; Enter ids tie frames to SSA functions; deferred calls matched on (caller, callee) without the line",
         "DESIGN.md §7 C12"),
 "C18": ("runtime monitoring: native execution of dispatch programs (functions announce themselves); executed set compared with reachability.FindReachable under the four root selections, with the pointer call-graph reachable set and with the set of all functions",
         "held on the executions observed except for the listed known findings (interface-to-interface assertions): executed subset of FindReachable; call-graph-reachable subset of FindReachable (statically-called functions strictly, dynamically dispatched std methods attributed); FindReachable subset of all functions; monotone under -nomain/-noinit.",
         "Enter ids tie run-time events to SSA functions; programs contain no reflection/cgo",
         "DESIGN.md §7 C18"),
 "C19": ("runtime monitoring: every (go-statement form x panic-handling form) case is run natively with a panic forced inside that goroutine; process death and the crash trace's 'created by' frame are compared with the may-panic findings",
         "held on the 21 x 15 cases executed except for the listed known findings (go statements on function values and interface values): every entry function without a recovering defer whose panic killed a native run is reported with the go statement among its creators, also with -exclude of another package.",
         "the crash trace format of the Go runtime; obligation only when the entry syntactically defers no function that calls recover (validated by the native outcome)",
         "DESIGN.md §7 C19"),
 "C04": ("runtime monitoring of the tool as a black box: candidate functions x call forms x specification patterns; identification is observed through probe flows in the tool's reports and compared with Go's regexp on the identity of the function actually called",
         "held on the cross product explored except for the listed known findings (invoke calls matched on the interface's package, function-value/method-value/method-expression calls with context patterns, source specs with receiver patterns): a call is identified as source/sink IFF the unanchored regular expressions match the called function's package path, name, receiver type and enclosing function. Identifier kinds for types, fields, stores and channel receives are not covered.",
         "reference model = Go's regexp package on run-time callee identity (each call site has a single possible callee by construction); invoke x receiver patterns are not asserted (ambiguous in the statement)",
         "DESIGN.md §7 C04"),
 "C08": ("runtime monitoring of the analyzer: the real intra-procedural analysis is run per function through its public entry point; an invariant monitor compares every summary with an independent SSA def-use reachability relation and checks the final abstract state for closure under CFG propagation",
         "held on every function summarised in the run (generated programs, repository test programs and, in the thorough tier, every loaded standard-library function under the size cap): each origin->use pair of the reference relation is an edge of the summary, and marks attached after an instruction are attached after each successor.",
         "the reference relation is an independent ~150-line walker over exactly the instruction kinds the property lists; FlowInformation is read through the public post-block callback",
         "DESIGN.md §7 C08"),
 "C09": ("runtime monitoring: (1) every resolvable summary-table entry is instantiated with the tool's own constructor and its in-range positions checked against the graph; (2) one-call programs with marker-carrying arguments are executed natively against the real standard library and the observed argument->result / argument->argument flows must be reported",
         "stage 1 is exhaustive over the table entries that resolve on this toolchain (324); stage 2 holds on the entries whose argument types the value synthesiser can build (about a third, in light-weight packages) x every marker-carrying argument position. Entries that cannot be invoked with synthesised values are covered by stage 1 only.",
         "marker containment after the call implies a flow through the real function; integer-carried data is not tracked; heavy packages (net/http, crypto/x509 ...) are not executed",
         "DESIGN.md §7 C09"),
 "C11": ("runtime monitoring: random heap-shape programs with an address probe after every step, executed natively with GC off under all inputs; observed same-address pairs and (value, allocation site) pairs are compared with MayAlias / PointsTo labels of the analyzer state",
         "held on all alias pairs observed (thousands per run): every two probed values of the same type that referred to the same object have intersecting points-to sets, and the allocation site of the object a value referred to is among the value's labels.",
         "addresses identify objects because GC is disabled; only same-type pairs; state built exactly as the tools build it; no reflection/unsafe in the programs",
         "DESIGN.md §7 C11"),
 "C13": ("runtime monitoring: chain programs whose data crosses a goroutine boundary (ordered hand-offs), executed natively with the marker monitor; observed source->sink events must be covered by a taint-flow report or by an escape report naming the source, with use-escape-analysis on",
         "held on the executions observed: 12 goroutine hand-off mechanisms alone, in all ordered pairs and embedded in random chains, eager and on-demand: no observed flow was left without a taint report or an escape report for its source.",
         "hand-offs are synchronised so the flow happens in every run; schedules beyond those are not needed for the oracle (the flow is observed or not)",
         "DESIGN.md §7 C13"),
 "C14": ("sanitizer: the Go race detector on deliberately racy generated programs; each report's two access lines are mapped to SSA memory instructions and compared with the escape analysis' locality in the contexts derived for the enclosing function",
         "held on the race reports observed except for the listed known findings (deferred publication; pointer obtained by type-asserting an interface parameter of a goroutine entry): every line the race detector reported contains an instruction classified non-local. 18 sharing mechanisms x 14 access kinds x both sides.",
         "race-detector reports are sound; contexts derived as the statement prescribes and merged per function (merged context is more conservative than each, so the oracle never over-demands); lines holding several memory instructions only need one non-local",
         "DESIGN.md §7 C14"),
 "C15": ("runtime monitoring of the analyzer through hooks: lattice-law checkers on graphs captured during the real escape analysis, the code's own per-instruction monotonicity self-check collected through a hook, and seeded permutations of the block/function worklists with comparison of the observable result",
         "held on everything observed: tens of thousands of graph pairs/triples of the same function satisfy idempotence, commutativity, associativity, upper bound and reflexivity; no monotonicity report over thousands of (instruction, pre/post) graphs; instruction locality and summary sizes are unchanged under worklist permutations.",
         "laws are checked with the analysis' own Merge/Matches/LessEqual; summarisation confined to the generated packages (the self-check retains all graphs)",
         "DESIGN.md §7 C15"),
 "C02": ("runtime monitoring: chain programs with sanitizer/validator links executed natively with opaque validator outcomes; a raw marker reaching the sink without a prior positive validation is an obligation that the taint tool, configured with the sanitizer/validator specs, must report",
         "held on the executions observed except for the listed known findings: 28 sanitizer/validator shapes (one-arm validation, bypass path, negated validator, negation stored in a variable, || short-circuit, err != nil fall-through, ignored result, validation in a callee / on a copy / of a struct field ...) alone, in every ordered pair and embedded in random chains, under all branch inputs x validator outcomes.",
         "lenient oracle on purpose: validating any value that carries the marker, earlier in the same chain execution, waives the obligation; marker rewriting by the native sanitizer",
         "DESIGN.md §7 C02"),
 "C03": ("runtime monitoring: the C01 chain programs with the sinks configured as backtrace points; natively observed origins must occur in a reported trace of the sink argument; every reported trace is checked for shape on the live graph",
         "held on the executions observed except for the listed known findings: every observed (source, sink) pair has a trace containing the source call, eager and on-demand; all reported traces end at the entry argument and are connected step by step.",
         "same runtime assumptions as C01; trace connectivity accepts In()/Out() edges and the inter-procedural step kinds listed in DESIGN",
         "DESIGN.md §7 C03"),
 "C05": ("differential runtime monitoring of the tool: the same program is analysed under a base configuration and under each soundness-neutral option variant in one supervised child; reported (source, sink) position sets are compared",
         "held on the programs analysed (generated chain batches and the repository's own multi-file taint test programs): equal sets under on-demand, four pkg-filters, report-*/coverage/log options; subset / size / non-emptiness under max-alarms 1, 2, 5.",
         "no execution of the analysed program is needed: the statement compares the tool with itself",
         "DESIGN.md §7 C05"),
 "C06": ("runtime monitoring of the analyzer under schedule and map-order perturbation: fresh processes x in-process repetitions x GOMAXPROCS values x seeded yields at the parallel-worker hook; canonical result sets must be identical",
         "held on the runs compared: identical (source,sink) sets, escape sets and backtrace (entry, origin) sets for generated programs (field-sensitive) and repository test programs; the number of distinct entry-point visiting orders actually seen is reported as evidence that iteration-order diversity was exercised.",
         "every fresh process re-randomises map iteration; yields only at existing concurrency points",
         "DESIGN.md §7 C06"),
 "C07": ("runtime monitoring: crash monitor (supervised child per (program, analysis) with goroutine dump on watchdog) plus logical step counters at every fixpoint/traversal loop head, on a fixed hostile corpus, the generated workloads of the other checks and seeded random programs",
         "termination is restated as bounded progress: no analysis variant (taint x4, backtrace x2, escape, reachability, defers on all functions, may-panic) panics or exits abnormally, and every loop-head counter stays below 200x the committed count of the pinned tree on the same program. Listed known findings: backtrace crashes on two programs.",
         "an unbounded 'eventually returns' cannot be decided by a finite run; a wall-clock watchdog alone is inconclusive",
         "DESIGN.md §7 C07"),
 "C17": ("runtime monitoring of the analyzer's live data structure: an invariant monitor walks the inter-procedural graph through public accessors at quiescent points (after graph construction, after every entry point via a visitor wrapper, at return), eager and on-demand",
         "held at every quiescent point observed except for the listed structural limitation (one In() record per source node when several tuple indices flow between the same two nodes): out<=>in edges with matching tuple index, call node<=>Callsites, closure node<=>ReferringMakeClosures, bound label->closure summary, global read/write location sets == access nodes of built summaries.",
         "the monitor replays the driver sequence of taint.Analyze through public entry points; graphs are only read at quiescent points",
         "DESIGN.md §7 C17"),
 "C20": ("sanitizer: the Go race detector on a -race build of the real analysis driver with seeded yields at hook sites, plus monitors for goroutine leaks, report-file completeness at return and MapParallel against the sequential map (results, order, goroutine count)",
         "held on the schedules observed: no race report over programs x option sets x log levels x {eager,on-demand} x GOMAXPROCS{2,16}; MapParallel equals the sequential map in input order for every length 0..40,100,1000 x workers -1..20 without leaking goroutines; no goroutine leak; summaries and flow report files complete when the analysis returns.",
         "race-detector reports are sound; absence of reports is evidence for the interleavings that ran only; yields cannot create interleavings the program cannot have",
         "DESIGN.md §7 C20"),
}
# checks that are built but whose clean-sweep validation on the unchanged tree is not finished are not claimed yet
NOT_YET_VALIDATED = set()
for k in NOT_YET_VALIDATED:
    CLAIMED.pop(k, None)
PENDING_REASON = "check is built (harness/checks) but its clean-sweep validation on the unchanged tree is not finished at this commit, so it is not claimed yet"

hooks_commits = []
try:
    out = subprocess.check_output(["git", "-C", "/repo", "log", "--format=%h %s"], text=True)
    for line in out.splitlines():
        h, _, msg = line.partition(" ")
        if msg.startswith("verif-hook:"):
            hooks_commits.append(h)
except Exception:
    pass

checks = []
for i in ids:
    if i not in CLAIMED:
        continue
    tech, text, note, ref = CLAIMED[i]
    checks.append({
        "property_id": i,
        "quick_cmd": f"./run.sh {i} quick",
        "thorough_cmd": f"./run.sh {i} thorough",
        "evidence_file": f"/verif/evidence/{i}.json",
        "replay_cmd_template": "./run.sh replay {path}",
        "engine": "vdriver",
        "level_claimed": {"category": "exploration", "text": text, "design_ref": ref},
        "level_note": note,
        "technique": tech,
    })
NA = {}
m = {
    "version": 1,
    "setup_cmd": "./run.sh setup",
    "hooks": {
        "guard": "verif",
        "enable": "go build -tags verif (done by ./run.sh before every check)",
        "baseline_off_cmd": "cd /repo && go test -mod=mod -json -vet=off -count=1 -timeout 25m ./...",
        "source_commits": hooks_commits,
        "add_only": True,
    },
    "engines": [{"name": "vdriver", "path": "/verif/harness/cmd/vdriver",
                 "serves_properties": [c["property_id"] for c in checks],
                 "kind_free_text": "Go supervisor/worker: generates programs, executes them natively under a monitor runtime, runs the analyzer linked from /repo's working tree in isolated children, compares recorded events with the analyzer's answers"}],
    "checks": checks,
    "notes": "Runtime monitoring only. Known findings (genuine defects not repaired) are listed in /verif/known_findings.json; fixed ones carry the fix commit.",
    "not_applicable": [{"property_id": i, "reason": NA.get(i, PENDING_REASON)} for i in ids if i not in CLAIMED],
}
json.dump(m, open(os.path.join(ROOT, "MANIFEST.json"), "w"), indent=1)
print("claimed", len(checks), "not_applicable", len(m["not_applicable"]))
