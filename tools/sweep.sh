#!/bin/bash
# tools/sweep.sh <seed> [tier] [ids…] — runs the given tier of every check (default: all 20, quick) at VERIF_SEED=<seed>, one after
# the other, into a scratch output directory (VERIF_OUT) so that committed evidence is not overwritten; prints a table.
SEED=$1; TIER=${2:-quick}; shift; shift
IDS=${@:-C16 C10 C12 C18 C19 C04 C11 C15 C09 C14 C13 C17 C08 C05 C02 C01 C03 C06 C07 C20}
OUT=/tmp/sweep-$TIER-s$SEED; mkdir -p $OUT
cd /verif
for id in $IDS; do
  t0=$(date +%s)
  VERIF_SEED=$SEED VERIF_OUT=$OUT/out ./run.sh $id $TIER > $OUT/$id.log 2>&1
  rc=$?
  echo "$id seed=$SEED tier=$TIER exit=$rc wall=$(( $(date +%s)-t0 ))s viol=$(grep -c '^VIOLATION' $OUT/$id.log) known=$(grep -c '^KNOWN-FINDING' $OUT/$id.log) $(grep '^SUMMARY' $OUT/$id.log | sed 's/.*evaluations/evaluations/')" | tee -a $OUT/TABLE.txt
done
