#!/usr/bin/env python3
"""Validates MANIFEST.json and every evidence file against the schemas (uses the tooling venv)."""
import json, glob, sys, jsonschema
ok = True
try:
    jsonschema.validate(json.load(open('/verif/MANIFEST.json')), json.load(open('/root/.vp/MANIFEST.schema.json')))
    print('MANIFEST.json valid')
except Exception as e:
    ok = False; print('MANIFEST INVALID', e)
es = json.load(open('/root/.vp/EVIDENCE.schema.json'))
for f in sorted(glob.glob('/verif/evidence/*.json')):
    try:
        jsonschema.validate(json.load(open(f)), es); print(f, 'valid')
    except Exception as e:
        ok = False; print(f, 'INVALID', str(e)[:300])
sys.exit(0 if ok else 1)
