#!/bin/bash
# Runs the repository's pinned test suite with the verif guard OFF and compares with /root/.vp/BASELINE.json.
export GOFLAGS=-mod=mod GOPROXY=off GOSUMDB=off GOTOOLCHAIN=local
OUT=${1:-/tmp/baseline.json}
cd /repo && go test -json -vet=off -count=1 -timeout ${BASELINE_TIMEOUT:-25m} ./... > "$OUT" 2>/tmp/baseline.err
python3 - "$OUT" <<'PY'
import json,sys
passed=set(); failed=set()
for line in open(sys.argv[1]):
    try: e=json.loads(line)
    except Exception: continue
    if e.get('Test') and e.get('Action') in ('pass','fail'):
        k=e['Package']+'::'+e['Test']
        (passed if e['Action']=='pass' else failed).add(k)
base=set(json.load(open('/root/.vp/BASELINE.json'))['stable_pass'])
missing=sorted(base-passed)
print('baseline',len(base),'passed',len(passed&base),'missing',len(missing),'failed',len(failed))
for m in missing[:40]: print('  MISSING',m)
for m in sorted(failed)[:40]: print('  FAILED',m)
sys.exit(1 if missing else 0)
PY
