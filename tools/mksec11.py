#!/usr/bin/env python3
"""tools/mksec11.py — rewrites DESIGN.md §11 (results of the last sweeps) from the tables the sweep tools wrote."""
import re, os, sys
D='/verif/DESIGN.md'
s=open(D).read()
i=s.find('\n## 11. ')
if i>=0: s=s[:i]
def rows(path, label):
    out=[]
    if not os.path.exists(path): return out
    last={}
    for l in open(path):
        f=l.split()
        if not f: continue
        kv=dict(x.split('=',1) for x in f[1:] if '=' in x)
        last[f[0]]=kv
    for k in sorted(last):
        kv=last[k]
        out.append(f"| {k} | {label} | {kv.get('exit','?')} | {kv.get('evaluations','?')} | {kv.get('distinct_nontrivial','?')} | {kv.get('inconclusive','?')} | {kv.get('known','?')} | {kv.get('wall','?')} |")
    return out
sec=['','## 11. Results of the last sweeps on the unchanged tree (this session)','',
 'Produced by `tools/final.sh quick` (registered quick commands, evidence under /verif/evidence) and `tools/sweep.sh 1 thorough …`',
 '(thorough commands, scratch output directory, run in several lanes while other work was going on: wall times are those of a',
 'loaded machine, roughly 2–4x the idle ones). `exit` is the command\'s exit code; `known` = KNOWN-FINDING lines printed.','',
 '| check | tier | exit | evaluations | distinct non-trivial | inconclusive | known findings hit | wall |','|---|---|---|---|---|---|---|---|']
sec+=rows('/tmp/final-quick/TABLE.txt','quick')
sec+=rows('/tmp/sweep-thorough-s1/TABLE.txt','thorough')
sec+=['','Earlier in the session every quick tier was also run at `VERIF_SEED` 2 (all exit 0 after the findings above were recorded).',
 'Inconclusive entries are watchdog or memory-cap terminations of single children (listed in the evidence files); they are',
 'never counted as held or violated.','']
if os.path.exists('/verif/seeded/RESULTS.txt'):
    sec+=['Seeded changes, `tools/allseeds.sh` (quick tier of the owning check against each patch in a scratch worktree):','','```']
    sec+=[l.rstrip()[:200] for l in open('/verif/seeded/RESULTS.txt')]
    sec+=['```','']
open(D,'w').write(s.rstrip('\n')+'\n'+'\n'.join(sec))
print('section 11 written')
