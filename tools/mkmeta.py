#!/usr/bin/env python3
"""tools/mkmeta.py <seed dir> <property> <needs> <detected_by> <check result line> — writes meta.json for a seeded change."""
import json, sys, os
sd, prop, needs, detected_by, result = sys.argv[1:6]
conf = {}
p = os.path.join(sd, '.confirm.json')
if os.path.exists(p):
    conf = json.load(open(p))
meta = {
 "property": prop,
 "what_it_needs_to_manifest": needs,
 "confirmed": conf,
 "what_i_ran": [
   "tools/confirmseed.sh <seed> <pkgs>: scratch worktree of /repo HEAD; demo on the clean tree (rc=%s), git apply patch.diff, go build ./... (rc=%s), go test of the affected packages '%s' (rc=%s), demo with the patch (rc=%s)" % (conf.get('demo_rc_clean'), conf.get('build_rc'), conf.get('tests'), conf.get('tests_rc'), conf.get('demo_rc_patched')),
   "the sub-agent that wrote the change ran the whole suite (see NOTES.md)",
   "tools/tryseed.sh <seed>/patch.diff %s quick" % detected_by,
 ],
 "detected_by": detected_by,
 "check_result": result,
}
json.dump(meta, open(os.path.join(sd, 'meta.json'), 'w'), indent=1)
print(sd, 'meta written')
