#!/bin/bash
# tools/allseeds.sh [seed-dir-names…] — runs the quick tier of the owning check against every seeded change
# (scratch worktree, VERIF_REPO) and writes seeded/RESULTS.txt: one line per seed with the check's exit code.
cd /verif
SEEDS=${@:-$(ls seeded | grep -E '^C[0-9]+-[0-9]+$')}
OUT=seeded/RESULTS.txt
TMP=$(mktemp)
for s in $SEEDS; do
  id=${s%%-*}
  log=$(mktemp)
  tools/tryseed.sh seeded/$s/patch.diff $id quick > $log 2>&1
  rc=$?
  sig=$(grep -m1 "sig=" $log | sed 's/^ *//' | cut -c1-160)
  echo "$s check=$id tier=quick exit=$rc $( [ $rc = 1 ] && echo DETECTED || echo NOT-DETECTED ) $sig" | tee -a $TMP
  rm -f $log
done
if [ $# = 0 ]; then mv $TMP $OUT; else cat $TMP >> $OUT; rm -f $TMP; fi
