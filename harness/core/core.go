// Package core holds what every check shares: scratch space, child supervision, evidence writing,
// known-finding attribution and violation/replay reporting.
package core

import (
	"crypto/sha256"
	"encoding/hex"
	"encoding/json"
	"fmt"
	"os"
	"os/exec"
	"path/filepath"
	"sort"
	"strconv"
	"strings"
	"sync"
	"time"
)

// VerifDir is the root of the verification tree.
var VerifDir = func() string {
	if d := os.Getenv("VERIF_DIR"); d != "" {
		return d
	}
	return "/verif"
}()

// OutDir is where evidence and replays are written (VERIF_OUT; default VerifDir). Used to try the checks
// against a scratch copy of the repository without touching the committed evidence.
var OutDir = func() string {
	if d := os.Getenv("VERIF_OUT"); d != "" {
		return d
	}
	return VerifDir
}()

// Seed returns VERIF_SEED (default 1).
func Seed() int64 {
	if s := os.Getenv("VERIF_SEED"); s != "" {
		if n, err := strconv.ParseInt(s, 10, 64); err == nil {
			return n
		}
	}
	return 1
}

// RNG is a small deterministic PRNG (splitmix64).
type RNG struct{ s uint64 }

// NewRNG returns a PRNG for (seed, stream).
func NewRNG(seed int64, stream string) *RNG {
	h := sha256.Sum256([]byte(fmt.Sprintf("%d/%s", seed, stream)))
	var s uint64
	for i := 0; i < 8; i++ {
		s = s<<8 | uint64(h[i])
	}
	return &RNG{s: s}
}

// Uint64 returns the next value.
func (r *RNG) Uint64() uint64 {
	r.s += 0x9e3779b97f4a7c15
	z := r.s
	z = (z ^ (z >> 30)) * 0xbf58476d1ce4e5b9
	z = (z ^ (z >> 27)) * 0x94d049bb133111eb
	return z ^ (z >> 31)
}

// Intn returns a value in [0,n).
func (r *RNG) Intn(n int) int {
	if n <= 0 {
		return 0
	}
	return int(r.Uint64() % uint64(n))
}

// Perm returns a permutation of [0,n).
func (r *RNG) Perm(n int) []int {
	p := make([]int, n)
	for i := range p {
		p[i] = i
	}
	for i := n - 1; i > 0; i-- {
		j := r.Intn(i + 1)
		p[i], p[j] = p[j], p[i]
	}
	return p
}

// Scratch creates a scratch directory outside /repo and /verif.
func Scratch(id string) (string, func()) {
	base := os.Getenv("VERIF_SCRATCH")
	if base == "" {
		base = os.TempDir()
	}
	d, err := os.MkdirTemp(base, "verif-"+id+"-")
	if err != nil {
		panic(err)
	}
	return d, func() {
		if os.Getenv("VERIF_KEEP") == "" {
			_ = os.RemoveAll(d)
		}
	}
}

// Parallel runs f(i) for i in [0,n) on w workers.
func Parallel(n, w int, f func(i int)) {
	if w < 1 {
		w = 1
	}
	var wg sync.WaitGroup
	ch := make(chan int)
	for k := 0; k < w; k++ {
		wg.Add(1)
		go func() {
			defer wg.Done()
			for i := range ch {
				f(i)
			}
		}()
	}
	for i := 0; i < n; i++ {
		ch <- i
	}
	close(ch)
	wg.Wait()
}

// ChildResult classifies the exit of a supervised child.
type ChildResult struct {
	Status   string // ok | fail | panic | watchdog
	ExitCode int
	LogFile  string
	Wall     time.Duration
}

// RunChild runs argv under `timeout -s QUIT`, with stdout+stderr to logFile (keeps goroutine dumps).
func RunChild(argv []string, env []string, logFile string, watchdog time.Duration) ChildResult {
	if watchdog <= 0 {
		watchdog = 15 * time.Minute
	}
	start := time.Now()
	lf, err := os.Create(logFile)
	if err != nil {
		panic(err)
	}
	defer lf.Close()
	secs := int(watchdog.Seconds())
	full := append([]string{"-s", "QUIT", "-k", "10", strconv.Itoa(secs)}, argv...)
	cmd := exec.Command("timeout", full...)
	// hard address-space cap for ordinary children (not for race-detector builds, whose shadow memory needs
	// terabytes of address space): a run-away analysis dies quickly with "out of memory" instead of taking the
	// machine down. VERIF_CHILD_AS_KB=0 disables it.
	if lim := childASLimitKB(); lim > 0 && !strings.Contains(argv[0], "race") {
		sh := fmt.Sprintf("ulimit -v %d; exec timeout -s QUIT -k 10 %d \"$@\"", lim, secs)
		cmd = exec.Command("sh", append([]string{"-c", sh, "sh"}, argv...)...)
	}
	cmd.Stdout = lf
	cmd.Stderr = lf
	cmd.Env = append(os.Environ(), env...)
	err = cmd.Run()
	res := ChildResult{LogFile: logFile, Wall: time.Since(start), Status: "ok"}
	if err != nil {
		if ee, ok := err.(*exec.ExitError); ok {
			res.ExitCode = ee.ExitCode()
		} else {
			res.ExitCode = -1
		}
		res.Status = "fail"
		data, _ := os.ReadFile(logFile)
		s := string(data)
		switch {
		case res.ExitCode == 124 || res.ExitCode == 137 || strings.Contains(s, "SIGQUIT: quit"):
			res.Status = "watchdog"
		case strings.Contains(s, "out of memory") || strings.Contains(s, "cannot allocate memory"):
			res.Status = "oom"
		case strings.Contains(s, "panic:") || strings.Contains(s, "fatal error:") || strings.Contains(s, "goroutine 1 ["):
			res.Status = "panic"
		}
	}
	return res
}

func childASLimitKB() int64 {
	if v := os.Getenv("VERIF_CHILD_AS_KB"); v != "" {
		n, _ := strconv.ParseInt(v, 10, 64)
		return n
	}
	return 20 * 1024 * 1024 // 20 GiB
}

// Evidence is the evidence file content.
type Evidence struct {
	PropertyID  string         `json:"property_id"`
	Tier        string         `json:"tier"`
	Seed        int64          `json:"seed"`
	Level       string         `json:"level"`
	Coverage    map[string]any `json:"coverage"`
	Assumptions []string       `json:"assumptions"`
	WallS       float64        `json:"wall_s"`
	Violations  int            `json:"violations"`
}

// Run is the per-check run context.
type Run struct {
	ID      string
	Tier    string
	SeedV   int64
	Start   time.Time
	Scratch string
	cleanup func()

	mu          sync.Mutex
	violations  []string
	knownHit    map[string]bool
	Known       []KnownFinding
	Cov         map[string]any
	Assumptions []string
	samples     []any
	distinct    map[string]bool
	evals       int
	inconcl     []string
}

// KnownFinding is one entry of known_findings.json.
type KnownFinding struct {
	Property string `json:"property"`
	Status   string `json:"status"` // known | fixed
	Sig      string `json:"sig"`
	What     string `json:"what"`
	Commit   string `json:"commit,omitempty"`
	Witness  string `json:"witness,omitempty"`
	Note     string `json:"note,omitempty"`
}

// LoadKnown loads the committed known-findings file (never written at run time).
func LoadKnown(property string) []KnownFinding {
	data, err := os.ReadFile(filepath.Join(VerifDir, "known_findings.json"))
	if err != nil {
		return nil
	}
	var all struct {
		Findings []KnownFinding `json:"findings"`
	}
	if err := json.Unmarshal(data, &all); err != nil {
		fmt.Fprintf(os.Stderr, "known_findings.json unreadable: %v\n", err)
		os.Exit(2)
	}
	var out []KnownFinding
	for _, k := range all.Findings {
		if k.Property == property && k.Status == "known" {
			out = append(out, k)
		}
	}
	return out
}

// NewRun starts a run.
func NewRun(id, tier string) *Run {
	sc, cl := Scratch(id)
	r := &Run{ID: id, Tier: tier, SeedV: Seed(), Start: time.Now(), Scratch: sc, cleanup: cl,
		knownHit: map[string]bool{}, Cov: map[string]any{}, distinct: map[string]bool{}}
	r.Known = LoadKnown(id)
	return r
}

// IsKnown reports whether sig is a listed known finding; if so it is remembered for the KNOWN-FINDING lines.
func (r *Run) IsKnown(sig string) bool {
	r.mu.Lock()
	defer r.mu.Unlock()
	for _, k := range r.Known {
		if k.Sig == sig {
			r.knownHit[sig] = true
			return true
		}
	}
	return false
}

// KnownSigs returns the set of listed signatures.
func (r *Run) KnownSigs() map[string]bool {
	m := map[string]bool{}
	for _, k := range r.Known {
		m[k.Sig] = true
	}
	return m
}

// Eval counts one evaluated case.
func (r *Run) Eval(n int) {
	r.mu.Lock()
	r.evals += n
	r.mu.Unlock()
}

// Distinct records one distinct non-trivial case key.
func (r *Run) Distinct(key string) {
	r.mu.Lock()
	r.distinct[key] = true
	r.mu.Unlock()
}

// NDistinct returns the number of distinct non-trivial cases so far.
func (r *Run) NDistinct() int {
	r.mu.Lock()
	defer r.mu.Unlock()
	return len(r.distinct)
}

// Sample records a literal sample case (at most max are kept).
func (r *Run) Sample(s any) {
	r.mu.Lock()
	if len(r.samples) < 6 {
		r.samples = append(r.samples, s)
	}
	r.mu.Unlock()
}

// Inconclusive records an inconclusive case.
func (r *Run) Inconclusive(what string) {
	r.mu.Lock()
	r.inconcl = append(r.inconcl, what)
	r.mu.Unlock()
	fmt.Printf("INCONCLUSIVE property=%s %s\n", r.ID, what)
}

// Violation saves a replay directory and prints the VIOLATION line. files: name -> content.
func (r *Run) Violation(sig string, what string, files map[string]string) {
	h := sha256.Sum256([]byte(sig))
	dir := filepath.Join(OutDir, "replays", r.ID, hex.EncodeToString(h[:6]))
	_ = os.MkdirAll(dir, 0o755)
	files["WHAT.txt"] = fmt.Sprintf("property=%s\nsig=%s\n%s\nseed=%d tier=%s\n", r.ID, sig, what, r.SeedV, r.Tier)
	for name, content := range files {
		p := filepath.Join(dir, name)
		_ = os.MkdirAll(filepath.Dir(p), 0o755)
		_ = os.WriteFile(p, []byte(content), 0o644)
	}
	r.mu.Lock()
	defer r.mu.Unlock()
	for _, v := range r.violations {
		if v == sig {
			return
		}
	}
	r.violations = append(r.violations, sig)
	fmt.Printf("VIOLATION property=%s replay=%s\n", r.ID, dir)
	fmt.Printf("  sig=%s %s\n", sig, what)
}

// NViolations returns the number of violations so far.
func (r *Run) NViolations() int {
	r.mu.Lock()
	defer r.mu.Unlock()
	return len(r.violations)
}

// Finish writes the evidence file, prints KNOWN-FINDING lines, cleans scratch and exits.
func (r *Run) Finish(level string, rule string) {
	r.mu.Lock()
	cov := r.Cov
	cov["evaluations"] = r.evals
	cov["distinct_nontrivial"] = len(r.distinct)
	cov["rule"] = rule
	if len(r.samples) == 0 {
		r.samples = append(r.samples, "none")
	}
	cov["samples"] = r.samples
	cov["inconclusive"] = len(r.inconcl)
	if len(r.inconcl) > 0 {
		n := len(r.inconcl)
		if n > 10 {
			n = 10
		}
		cov["inconclusive_samples"] = r.inconcl[:n]
	}
	var hits []string
	for k := range r.knownHit {
		hits = append(hits, k)
	}
	sort.Strings(hits)
	cov["known_findings_hit"] = hits
	ev := Evidence{PropertyID: r.ID, Tier: r.Tier, Seed: r.SeedV, Level: level, Coverage: cov,
		Assumptions: r.Assumptions, WallS: time.Since(r.Start).Seconds(), Violations: len(r.violations)}
	nv := len(r.violations)
	r.mu.Unlock()
	for _, k := range r.Known {
		if r.knownHit[k.Sig] {
			fmt.Printf("KNOWN-FINDING: property=%s %s %s\n", r.ID, k.Sig, k.What)
		}
	}
	data, _ := json.MarshalIndent(ev, "", " ")
	_ = os.MkdirAll(filepath.Join(OutDir, "evidence"), 0o755)
	if err := os.WriteFile(filepath.Join(OutDir, "evidence", r.ID+".json"), data, 0o644); err != nil {
		fmt.Fprintf(os.Stderr, "cannot write evidence: %v\n", err)
	}
	fmt.Printf("SUMMARY property=%s tier=%s seed=%d evaluations=%d distinct_nontrivial=%d inconclusive=%d violations=%d wall=%.0fs\n",
		r.ID, r.Tier, r.SeedV, ev.Coverage["evaluations"], ev.Coverage["distinct_nontrivial"], len(r.inconcl), nv, ev.WallS)
	r.cleanup()
	if nv > 0 {
		os.Exit(1)
	}
	os.Exit(0)
}

// WriteJSON writes v as JSON to path.
func WriteJSON(path string, v any) {
	data, err := json.MarshalIndent(v, "", " ")
	if err != nil {
		panic(err)
	}
	if err := os.WriteFile(path, data, 0o644); err != nil {
		panic(err)
	}
}

// ReadJSON reads JSON from path.
func ReadJSON(path string, v any) error {
	data, err := os.ReadFile(path)
	if err != nil {
		return err
	}
	return json.Unmarshal(data, v)
}

// Self returns the path of the running binary.
func Self() string {
	p, err := os.Executable()
	if err != nil {
		panic(err)
	}
	return p
}
