package gen

import (
	"fmt"
	"strings"
)

// HostileProgram is a well-typed program meant to stress the analyses (C07 workload).
type HostileProgram struct {
	Name  string
	Files map[string]string
}

func hostileMain(imports []string, decls string, body string) string {
	var sb strings.Builder
	sb.WriteString("package main\n\nimport (\n")
	seen := map[string]bool{}
	for _, im := range append(imports, "vprog/rt") {
		if !seen[im] {
			seen[im] = true
			fmt.Fprintf(&sb, "\t%q\n", im)
		}
	}
	sb.WriteString(")\n\n")
	sb.WriteString(decls)
	sb.WriteString("\nfunc main() {\n\tdefer rt.Done()\n")
	sb.WriteString(body)
	sb.WriteString("}\n")
	return sb.String()
}

// HostilePrograms returns the fixed hostile corpus (seed independent).
func HostilePrograms() []HostileProgram {
	var out []HostileProgram
	add := func(name string, imports []string, decls, body string, extra map[string]string) {
		files := map[string]string{"main.go": hostileMain(imports, decls, body)}
		for k, v := range extra {
			files[k] = v
		}
		out = append(out, HostileProgram{Name: name, Files: files})
	}

	// 1. recursion of every flavour, with tainted data flowing through it
	add("recursion", nil, `
func direct(s string, n int) string {
	if n <= 0 {
		return s
	}
	return direct(s+"a", n-1)
}

func mutA(s string, n int) string {
	if n <= 0 {
		return s
	}
	return mutB(s, n-1)
}
func mutB(s string, n int) string { return mutC(s, n) }
func mutC(s string, n int) string { return mutA(s, n) }

type fix func(fix, string, int) string

func viaClosure(s string) string {
	var rec func(string, int) string
	rec = func(x string, n int) string {
		if n == 0 {
			return x
		}
		return rec(x, n-1)
	}
	return rec(s, 3)
}

func yComb(s string) string {
	f := func(self fix, x string, n int) string {
		if n == 0 {
			return x
		}
		return self(self, x, n-1)
	}
	return f(f, s, 2)
}

type tree struct {
	l, r *tree
	v    string
}

func (t *tree) walk(acc *[]string) {
	if t == nil {
		return
	}
	t.l.walk(acc)
	*acc = append(*acc, t.v)
	t.r.walk(acc)
}

func ackermann(m, n int) int {
	if m == 0 {
		return n + 1
	}
	if n == 0 {
		return ackermann(m-1, 1)
	}
	return ackermann(m-1, ackermann(m, n-1))
}
`, `	x := rt.Source(1)
	rt.Sink(1, direct(x, 3))
	rt.Sink(2, mutA(x, 4))
	rt.Sink(3, viaClosure(x))
	rt.Sink(4, yComb(x))
	t := &tree{v: x, l: &tree{v: "l"}, r: &tree{v: "r", l: &tree{v: x}}}
	var acc []string
	t.walk(&acc)
	rt.Sink(5, acc)
	_ = ackermann(1, 1)
`, nil)

	// 2. recursive data types and self references
	add("recursive-types", nil, `
type node struct {
	next  *node
	prev  **node
	kids  []*node
	byKey map[string]*node
	self  *node
	iface any
	fn    func(*node) *node
	ch    chan *node
	val   string
}

type ring [3]*ring

type either struct {
	left  *either
	right []either
	m     map[string][]either
}

type walker interface{ step(walker) walker }

func (n *node) step(w walker) walker { return n.next }

func build(s string) *node {
	a := &node{val: s}
	b := &node{val: "b", next: a}
	a.next = b
	a.self = a
	a.prev = &b.next
	a.kids = []*node{a, b}
	a.byKey = map[string]*node{"a": a}
	a.iface = a
	a.fn = func(x *node) *node { return x.next }
	a.ch = make(chan *node, 1)
	a.ch <- b
	return a
}
`, `	n := build(rt.Source(1))
	cur := n
	for i := 0; i < 5; i++ {
		cur = cur.fn(cur)
	}
	rt.Sink(1, cur.val)
	rt.Sink(2, n.iface.(*node).kids[1].next.val)
	var r ring
	r[0] = &r
	var e either
	e.right = append(e.right, either{left: &e})
	var w walker = n
	w = w.step(w)
	rt.Sink(3, (<-n.ch).next.val)
	_ = w
`, nil)

	// 2b. recursion reached from inside closures that capture the tainted value (closure context + call recursion)
	add("closure-recursion", nil, `
func pad(s string, n int) string {
	if n == 0 {
		return s
	}
	return pad(s+" ", n-1)
}

func pingA(s string, n int) string {
	if n == 0 {
		return s
	}
	return pingB(s, n-1)
}

func pingB(s string, n int) string { return pingA(s+"b", n) }

type acc struct{ v string }

func (a *acc) grow(n int) string {
	if n == 0 {
		return a.v
	}
	a.v += "g"
	return a.grow(n - 1)
}
`, `	x := rt.Source(1)
	f := func() string { return pad(x, 3) }
	rt.Sink(1, f())
	g := func(k int) string {
		h := func() string { return pingA(x, k) }
		return h()
	}
	rt.Sink(2, g(2))
	a := &acc{v: x}
	m := func() string { return a.grow(2) }
	rt.Sink(3, m())
	var self func(int) string
	self = func(k int) string {
		if k == 0 {
			return pad(x, 1)
		}
		return self(k - 1)
	}
	rt.Sink(4, self(2))
`, nil)

	// 3b. several distinct defers per loop iteration, in branches, nested loops and with goto
	add("defers-multi-loop", []string{"sync"}, `
func acquireAll(ms []*sync.Mutex, s string) (r string) {
	for _, m := range ms {
		m.Lock()
		defer m.Unlock()
		defer func() { r += s }()
	}
	return s
}

func threePerIteration(s string, n int) (r string) {
	for i := 0; i < n; i++ {
		defer func() { r += "a" }()
		if i%2 == 0 {
			defer func() { r += s }()
		} else {
			defer func() { r += "c" }()
		}
		defer rt.Nop()
	}
	return s
}

func nestedLoops(s string, n int) (r string) {
	for i := 0; i < n; i++ {
		defer func() { r += "o" }()
		for j := 0; j < i; j++ {
			defer func() { r += s }()
			defer func() { r += "i" }()
		}
	}
	return s
}

func gotoTwo(s string, n int) (r string) {
	i := 0
again:
	defer func() { r += s }()
	defer func() { r += "g" }()
	i++
	if i < n {
		goto again
	}
	return s
}
`, `	x := rt.Source(1)
	ms := []*sync.Mutex{{}, {}}
	rt.Sink(1, acquireAll(ms, x))
	rt.Sink(2, threePerIteration(x, 3))
	rt.Sink(3, nestedLoops(x, 3))
	rt.Sink(4, gotoTwo(x, 2))
`, nil)

	// 3. defers everywhere
	add("defers", nil, `
func loopDefers(s string, n int) (r string) {
	for i := 0; i < n; i++ {
		defer func() { r += s }()
	}
	for {
		defer func() { r += "x" }()
		if len(r) >= 0 {
			break
		}
	}
	return ""
}

func nestedDefers(s string) (r string) {
	defer func() {
		defer func() {
			defer func() { r = s }()
		}()
	}()
	return "k"
}

func deferInBranches(s string, c bool) (r string) {
	if c {
		defer func() { r = s }()
	} else {
		defer func() { r = "k" }()
	}
	switch {
	case len(s) > 3:
		defer func() { r += "!" }()
		fallthrough
	default:
		defer rt.Nop()
	}
	return s
}

func deferRecover(s string) (r string) {
	defer func() {
		if e := recover(); e != nil {
			r = s
		}
	}()
	panic("boom")
}

func gotoDefer(n int) {
top:
	defer rt.Nop()
	n--
	if n > 0 {
		goto top
	}
}

type closer struct{ name string }

func (c *closer) Close() error { return nil }

func deferMethods(s string) string {
	c := &closer{name: s}
	defer c.Close()
	f := c.Close
	defer f()
	defer (*closer).Close(c)
	return c.name
}
`, `	x := rt.Source(1)
	rt.Sink(1, loopDefers(x, 2))
	rt.Sink(2, nestedDefers(x))
	rt.Sink(3, deferInBranches(x, rt.Cond(0)))
	rt.Sink(4, deferRecover(x))
	gotoDefer(2)
	rt.Sink(5, deferMethods(x))
`, nil)

	// 4. generics
	add("generics", []string{"fmt"}, `
type number interface{ ~int | ~int64 | ~float64 }

type pair[K comparable, V any] struct {
	k K
	v V
}

type list[T any] struct {
	head *elem[T]
}

type elem[T any] struct {
	v    T
	next *elem[T]
}

func (l *list[T]) push(v T) { l.head = &elem[T]{v: v, next: l.head} }

func (l *list[T]) each(f func(T)) {
	for e := l.head; e != nil; e = e.next {
		f(e.v)
	}
}

func mapf[T, U any](xs []T, f func(T) U) []U {
	var out []U
	for _, x := range xs {
		out = append(out, f(x))
	}
	return out
}

func sum[T number](xs ...T) T {
	var s T
	for _, x := range xs {
		s += x
	}
	return s
}

func wrap[T any](x T) any { return x }

func nest[T any](x T, n int) any {
	if n == 0 {
		return x
	}
	return wrap(pair[int, pair[string, T]]{n, pair[string, T]{"k", x}})
}

type stringer interface{ String() string }

type myStr string

func (m myStr) String() string { return string(m) }

func show[T stringer](x T) string { return x.String() }

func keys[M ~map[K]V, K comparable, V any](m M) []K {
	var ks []K
	for k := range m {
		ks = append(ks, k)
	}
	return ks
}
`, `	x := rt.Source(1)
	l := &list[string]{}
	l.push(x)
	l.each(func(s string) { rt.Sink(1, s) })
	rt.Sink(2, mapf([]string{x}, func(s string) pair[string, int] { return pair[string, int]{s, 1} }))
	_ = sum(1, 2, 3)
	_ = sum(1.5, 2.5)
	rt.Sink(3, nest(x, 1))
	rt.Sink(4, show(myStr(x)))
	rt.Sink(5, keys(map[string]int{x: 1}))
	rt.Sink(6, fmt.Sprint(pair[string, *list[string]]{x, l}))
`, nil)

	// 5. functions without bodies
	add("bodyless", []string{"unsafe"}, `
//go:linkname nanotime runtime.nanotime
func nanotime() int64

func asmStub(a, b int) int

var _ = unsafe.Sizeof(0)

type ext interface{ do(string) string }

func callExt(e ext, s string) string {
	if e == nil {
		return s
	}
	return e.do(s)
}
`, `	x := rt.Source(1)
	_ = nanotime()
	if rt.Cond(0) {
		_ = asmStub(1, 2)
	}
	rt.Sink(1, callExt(nil, x))
`, map[string]string{"stub_amd64.s": "#include \"textflag.h\"\n\nTEXT ·asmStub(SB), NOSPLIT, $0-24\n\tMOVQ a+0(FP), AX\n\tADDQ b+8(FP), AX\n\tMOVQ AX, ret+16(FP)\n\tRET\n"})

	// 6. control-flow spaghetti
	{
		var sw strings.Builder
		sw.WriteString("func bigSwitch(n int, s string) string {\n\tswitch n {\n")
		for i := 0; i < 300; i++ {
			fmt.Fprintf(&sw, "\tcase %d:\n\t\treturn s + \"%d\"\n", i, i)
		}
		sw.WriteString("\t}\n\treturn s\n}\n\n")
		sw.WriteString(`func spaghetti(s string, n int) string {
	i := 0
	out := ""
a:
	if i > n {
		goto done
	}
	i++
	switch i % 3 {
	case 0:
		goto b
	case 1:
		goto c
	}
	goto a
b:
	out += s
	goto a
c:
	for j := 0; j < 2; j++ {
		if j == 1 {
			continue
		}
		for {
			if i%2 == 0 {
				break
			}
			goto a
		}
	}
	goto a
done:
	return out
}

func labeled(xs [][]string) string {
outer:
	for _, row := range xs {
		for _, x := range row {
			if x == "" {
				continue outer
			}
			if x == "stop" {
				break outer
			}
			return x
		}
	}
	return ""
}

func selects(s string) string {
	a := make(chan string, 1)
	b := make(chan string, 1)
	a <- s
	for i := 0; i < 3; i++ {
		select {
		case v := <-a:
			b <- v
		case v, ok := <-b:
			if ok {
				return v
			}
		default:
		}
	}
	return ""
}
`)
		add("control-flow", nil, sw.String(), `	x := rt.Source(1)
	rt.Sink(1, bigSwitch(7, x))
	rt.Sink(2, spaghetti(x, 7))
	rt.Sink(3, labeled([][]string{{"", "a"}, {x}}))
	rt.Sink(4, selects(x))
`, nil)
	}

	// 7. very deep call chain and a very long function
	{
		var sb strings.Builder
		for i := 0; i < 200; i++ {
			if i == 199 {
				fmt.Fprintf(&sb, "func deep%d(s string) string { return s }\n", i)
			} else {
				fmt.Fprintf(&sb, "func deep%d(s string) string { return deep%d(s) }\n", i, i+1)
			}
		}
		sb.WriteString("\nfunc long(s string) string {\n\tx := s\n\tm := map[string]string{}\n")
		for i := 0; i < 600; i++ {
			fmt.Fprintf(&sb, "\tm[\"k%d\"] = x\n\tx = m[\"k%d\"] + \"%d\"\n", i, i, i%10)
			if i%50 == 49 {
				fmt.Fprintf(&sb, "\tif len(x) > %d {\n\t\tx = x[1:]\n\t}\n", 100000+i)
			}
		}
		sb.WriteString("\treturn x\n}\n")
		add("deep-and-long", nil, sb.String(), `	x := rt.Source(1)
	rt.Sink(1, deep0(x))
	rt.Sink(2, long(x))
`, nil)
	}

	// 8. odds and ends of the language
	add("odds", []string{"errors", "fmt", "sort", "strings", "sync"}, `
type color int

const (
	red color = iota
	green
	blue = green << 2
)

func (c color) String() string { return [...]string{"r", "g", "b"}[c%3] }

type base struct{ id string }

func (b *base) ID() string { return b.id }

type mid struct{ *base }
type top struct {
	mid
	sync.Mutex
	extra [2][2]string
}

type errT struct{ msg string }

func (e *errT) Error() string { return e.msg }

func mayFail(s string) (string, error) {
	if len(s) > 100 {
		return "", &errT{msg: s}
	}
	return s, nil
}

func variadic(prefix string, rest ...any) string {
	return prefix + fmt.Sprint(rest...)
}

func multi() (a, b, c string, err error) {
	a, b = "a", "b"
	defer func() { c = a + b }()
	return
}

func arrays(s string) string {
	var grid [3][3]string
	grid[1][2] = s
	cp := grid
	p := &cp[1]
	return p[2]
}

func closuresInLoop(xs []string) []func() string {
	var fs []func() string
	for i, x := range xs {
		fs = append(fs, func() string { return fmt.Sprint(i, x) })
	}
	return fs
}

func complexNums(s string) string {
	c := complex(float64(len(s)), 1)
	return fmt.Sprint(real(c), imag(c), s)
}

func typeSwitch(v any) string {
	switch x := v.(type) {
	case nil:
		return "nil"
	case string:
		return x
	case fmt.Stringer:
		return x.String()
	case error:
		return x.Error()
	case []any:
		if len(x) > 0 {
			return typeSwitch(x[0])
		}
	case func() string:
		return x()
	}
	return ""
}
`, `	x := rt.Source(1)
	t := &top{mid: mid{&base{id: x}}}
	t.Lock()
	t.extra[1][0] = t.ID()
	t.Unlock()
	rt.Sink(1, t.extra)
	s, err := mayFail(x)
	var e *errT
	if errors.As(err, &e) {
		rt.Sink(2, e.msg)
	}
	rt.Sink(3, variadic(s, 1, blue, x))
	a, b, c, _ := multi()
	rt.Sink(4, a+b+c)
	rt.Sink(5, arrays(x))
	for _, f := range closuresInLoop([]string{x, "y"}) {
		rt.Sink(6, f())
	}
	rt.Sink(7, complexNums(x))
	rt.Sink(8, typeSwitch([]any{func() string { return x }}))
	xs := strings.Split(x+",b", ",")
	sort.Slice(xs, func(i, j int) bool { return xs[i] < xs[j] })
	rt.Sink(9, xs)
`, nil)

	// 9. goroutines and synchronisation
	add("concurrency", []string{"sync", "context", "time"}, `
type result struct {
	val string
	err error
}

func producer(ctx context.Context, s string, out chan<- result) {
	defer close(out)
	for i := 0; i < 3; i++ {
		select {
		case <-ctx.Done():
			return
		case out <- result{val: s}:
		}
	}
}

func fanIn(cs ...<-chan result) <-chan result {
	var wg sync.WaitGroup
	out := make(chan result)
	for _, c := range cs {
		wg.Add(1)
		go func(c <-chan result) {
			defer wg.Done()
			for r := range c {
				out <- r
			}
		}(c)
	}
	go func() {
		wg.Wait()
		close(out)
	}()
	return out
}

var once sync.Once
var shared string
`, `	x := rt.Source(1)
	ctx, cancel := context.WithTimeout(context.Background(), time.Second)
	defer cancel()
	a, b := make(chan result), make(chan result)
	go producer(ctx, x, a)
	go producer(ctx, "k", b)
	for r := range fanIn(a, b) {
		rt.Sink(1, r.val)
	}
	once.Do(func() { shared = x })
	rt.Sink(2, shared)
`, nil)

	return out
}
