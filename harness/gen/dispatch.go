package gen

import (
	"fmt"
	"sort"
	"strings"
)

// Form is one way of reaching a target function (C12, C18 workloads).
//
// Placeholders: $u unique suffix; $e0..$e9 Enter ids (unique per instance). Every generated function starts with
// rt.Enter(id) so that its execution is observable.
type Form struct {
	Name    string
	Tags    []string
	Imports []string
	LibImp  []string
	Decls   string
	Lib     string // package vprog/lib
	Sub     string // package vprog/lib/sub
	Body    string // statements of the case function (runs from main)
	Init    string // statements placed in an init() function
}

var formIndex = map[string]*Form{}
var formOrder []string

func parseForms(src string) {
	var cur *Form
	section := ""
	var sb strings.Builder
	flush := func() {
		if cur == nil {
			return
		}
		txt := strings.Trim(sb.String(), "\n")
		switch section {
		case "decls":
			cur.Decls = txt
		case "lib":
			cur.Lib = txt
		case "sub":
			cur.Sub = txt
		case "body":
			cur.Body = txt
		case "init":
			cur.Init = txt
		}
		sb.Reset()
	}
	for _, line := range strings.Split(src, "\n") {
		switch {
		case strings.HasPrefix(line, "### "):
			flush()
			f := strings.Fields(line[4:])
			cur = &Form{Name: f[0], Tags: f[1:]}
			if _, dup := formIndex[cur.Name]; dup {
				panic("duplicate form " + cur.Name)
			}
			formIndex[cur.Name] = cur
			formOrder = append(formOrder, cur.Name)
			section = ""
		case strings.HasPrefix(line, "@imports"):
			flush()
			cur.Imports = strings.Fields(line)[1:]
			section = ""
		case strings.HasPrefix(line, "@libimports"):
			flush()
			cur.LibImp = strings.Fields(line)[1:]
			section = ""
		case line == "@decls" || line == "@lib" || line == "@sub" || line == "@body" || line == "@init":
			flush()
			section = line[1:]
		default:
			if section != "" {
				sb.WriteString(line)
				sb.WriteByte('\n')
			}
		}
	}
	flush()
}

// AllForms returns form names (optionally restricted to a tag).
func AllForms(tag string) []string {
	var out []string
	for _, n := range formOrder {
		if tag == "" {
			out = append(out, n)
			continue
		}
		for _, t := range formIndex[n].Tags {
			if t == tag {
				out = append(out, n)
			}
		}
	}
	return out
}

// DispatchCase is one instantiated form.
type DispatchCase struct {
	Idx  int
	Form string
}

// EnterBase is the first Enter id of case idx.
func EnterBase(idx int) int { return idx * 20 }

// RenderDispatch renders a program made of dispatch cases.
func RenderDispatch(cases []DispatchCase) map[string]string {
	imports := map[string]bool{"vprog/rt": true}
	libImports := map[string]bool{"vprog/rt": true}
	var decls, lib, sub, body, initb strings.Builder
	needLib, needSub := false, false
	for _, c := range cases {
		f := formIndex[c.Form]
		if f == nil {
			panic("unknown form " + c.Form)
		}
		pairs := []string{"$u", fmt.Sprintf("_%d", c.Idx)}
		for k := 0; k < 10; k++ {
			pairs = append(pairs, fmt.Sprintf("$e%d", k), fmt.Sprintf("%d", EnterBase(c.Idx)+k))
		}
		rep := strings.NewReplacer(pairs...)
		for _, im := range f.Imports {
			imports[im] = true
		}
		for _, im := range f.LibImp {
			libImports[im] = true
		}
		if f.Decls != "" {
			decls.WriteString(rep.Replace(f.Decls) + "\n\n")
		}
		if f.Lib != "" {
			needLib = true
			imports["vprog/lib"] = true
			lib.WriteString(rep.Replace(f.Lib) + "\n\n")
		}
		if f.Sub != "" {
			needSub = true
			sub.WriteString(rep.Replace(f.Sub) + "\n\n")
		}
		fmt.Fprintf(&body, "// form %s\nfunc case%d() {\n\trt.Enter(%d)\n", c.Form, c.Idx, EnterBase(c.Idx)+19)
		for _, l := range strings.Split(rep.Replace(f.Body), "\n") {
			if l != "" {
				body.WriteString("\t" + l + "\n")
			}
		}
		body.WriteString("}\n\n")
		if f.Init != "" {
			fmt.Fprintf(&initb, "func init() {\n")
			for _, l := range strings.Split(rep.Replace(f.Init), "\n") {
				initb.WriteString("\t" + l + "\n")
			}
			initb.WriteString("}\n\n")
		}
	}
	var m strings.Builder
	m.WriteString("package main\n\nimport (\n")
	for _, im := range sortedKeys(imports) {
		fmt.Fprintf(&m, "\t%q\n", im)
	}
	m.WriteString(")\n\n")
	m.WriteString(decls.String())
	m.WriteString(initb.String())
	m.WriteString(body.String())
	m.WriteString("func main() {\n\trt.Enter(1)\n\tdefer rt.Done()\n")
	idxs := []int{}
	for _, c := range cases {
		idxs = append(idxs, c.Idx)
	}
	sort.Ints(idxs)
	for _, i := range idxs {
		fmt.Fprintf(&m, "\tcase%d()\n", i)
	}
	m.WriteString("}\n")
	files := map[string]string{"main.go": m.String()}
	if needLib {
		var lb strings.Builder
		lb.WriteString("// Package lib holds cross-package targets.\npackage lib\n\nimport (\n")
		if needSub && strings.Contains(lib.String(), "sub.") {
			libImports["vprog/lib/sub"] = true
		}
		for _, im := range sortedKeys(libImports) {
			fmt.Fprintf(&lb, "\t%q\n", im)
		}
		lb.WriteString(")\n\n")
		lb.WriteString(lib.String())
		files["lib/lib.go"] = lb.String()
	}
	if needSub {
		files["lib/sub/sub.go"] = "// Package sub holds nested-package targets.\npackage sub\n\nimport \"vprog/rt\"\n\n" + sub.String()
	}
	return files
}

func init() { parseForms(formLib) }

const formLib = `
### direct basic
@decls
func tgt$u() { rt.Enter($e0) }
@body
tgt$u()

### valmethod basic
@decls
type T$u struct{ n int }

func (t T$u) m() { rt.Enter($e0) }
@body
T$u{}.m()

### ptrmethod basic
@decls
type T$u struct{ n int }

func (t *T$u) m() { rt.Enter($e0) }
@body
(&T$u{}).m()

### invoke iface
@decls
type I$u interface{ m() }
type T$u struct{ n int }

func (t T$u) m() { rt.Enter($e0) }
@body
var i$u I$u = T$u{}
i$u.m()

### invoke2 iface
@decls
type I$u interface{ m() }
type A$u struct{ n int }
type B$u struct{ n int }

func (t A$u) m()  { rt.Enter($e0) }
func (t *B$u) m() { rt.Enter($e1) }
@body
for _, i$u := range []I$u{A$u{}, &B$u{}} {
	i$u.m()
}

### funcparam funcval
@decls
func tgt$u()            { rt.Enter($e0) }
func callf$u(f func()) { rt.Enter($e1); f() }
@body
callf$u(tgt$u)

### funcfield funcval
@decls
type H$u struct{ f func() }

func tgt$u() { rt.Enter($e0) }
@body
h$u := H$u{f: tgt$u}
h$u.f()

### funcmap funcval
@decls
func tgt$u() { rt.Enter($e0) }
@body
m$u := map[string]func(){"a": tgt$u}
m$u["a"]()

### funcslice funcval
@decls
func tgt$u() { rt.Enter($e0) }
@body
s$u := []func(){tgt$u}
for _, f$u := range s$u {
	f$u()
}

### funcglobal funcval
@decls
func tgt$u() { rt.Enter($e0) }

var g$u = tgt$u
@body
g$u()

### funcglobalset funcval
@decls
func tgt$u() { rt.Enter($e0) }

var g$u func()

func set$u() { rt.Enter($e1); g$u = tgt$u }
@body
set$u()
g$u()

### funcreturned funcval
@decls
func tgt$u()          { rt.Enter($e0) }
func mk$u() func() { rt.Enter($e1); return tgt$u }
@body
mk$u()()

### funcchan funcval
@decls
func tgt$u() { rt.Enter($e0) }
@body
c$u := make(chan func(), 1)
c$u <- tgt$u
(<-c$u)()

### funcifacebox funcval iface
@decls
func tgt$u() { rt.Enter($e0) }
@body
var a$u any = tgt$u
a$u.(func())()

### closure closure
@decls
func tgt$u() { rt.Enter($e0) }
@body
func() {
	rt.Enter($e1)
	tgt$u()
}()

### closurevar closure
@decls
func tgt$u() { rt.Enter($e0) }
@body
f$u := func() {
	rt.Enter($e1)
	tgt$u()
}
f$u()

### closureret closure
@decls
func tgt$u() { rt.Enter($e0) }
func mk$u() func() {
	rt.Enter($e1)
	return func() {
		rt.Enter($e2)
		tgt$u()
	}
}
@body
mk$u()()

### closurecapfn closure funcval
@decls
func tgt$u() { rt.Enter($e0) }
@body
t$u := tgt$u
f$u := func() {
	rt.Enter($e1)
	t$u()
}
f$u()

### methodvalue funcval
@decls
type T$u struct{ n int }

func (t T$u) m() { rt.Enter($e0) }
@body
f$u := T$u{}.m
f$u()

### methodvalueptr funcval
@decls
type T$u struct{ n int }

func (t *T$u) m() { rt.Enter($e0) }
@body
t$u := &T$u{}
f$u := t$u.m
f$u()

### methodvalueiface funcval iface
@decls
type I$u interface{ m() }
type T$u struct{ n int }

func (t T$u) m() { rt.Enter($e0) }
@body
var i$u I$u = T$u{}
f$u := i$u.m
f$u()

### methodexpr funcval
@decls
type T$u struct{ n int }

func (t T$u) m() { rt.Enter($e0) }
@body
f$u := T$u.m
f$u(T$u{})

### methodexprptr funcval
@decls
type T$u struct{ n int }

func (t *T$u) m() { rt.Enter($e0) }
@body
f$u := (*T$u).m
f$u(&T$u{})

### methodexpriface funcval iface
@decls
type I$u interface{ m() }
type T$u struct{ n int }

func (t T$u) m() { rt.Enter($e0) }
@body
f$u := I$u.m
f$u(T$u{})

### deferdirect defer
@decls
func tgt$u() { rt.Enter($e0) }
@body
defer tgt$u()

### defermethod defer
@decls
type T$u struct{ n int }

func (t *T$u) m() { rt.Enter($e0) }
@body
t$u := &T$u{}
defer t$u.m()

### deferinvoke defer iface
@decls
type I$u interface{ m() }
type T$u struct{ n int }

func (t T$u) m() { rt.Enter($e0) }
@body
var i$u I$u = T$u{}
defer i$u.m()

### deferclosure defer closure
@decls
func tgt$u() { rt.Enter($e0) }
@body
defer func() {
	rt.Enter($e1)
	tgt$u()
}()

### deferfuncval defer funcval
@decls
func tgt$u()          { rt.Enter($e0) }
func pick$u() func() { rt.Enter($e1); return tgt$u }
@body
f$u := pick$u()
defer f$u()

### deferarg defer funcval
@decls
func tgt$u()            { rt.Enter($e0) }
func callf$u(f func()) { rt.Enter($e1); f() }
@body
defer callf$u(tgt$u)

### godirect go
@decls
var done$u = make(chan bool, 1)

func tgt$u() { rt.Enter($e0); done$u <- true }
@body
go tgt$u()
<-done$u

### goclosure go closure
@decls
func tgt$u() { rt.Enter($e0) }
@body
d$u := make(chan bool, 1)
go func() {
	rt.Enter($e1)
	tgt$u()
	d$u <- true
}()
<-d$u

### gomethod go
@decls
type T$u struct{ d chan bool }

func (t *T$u) m() { rt.Enter($e0); t.d <- true }
@body
t$u := &T$u{d: make(chan bool, 1)}
go t$u.m()
<-t$u.d

### goinvoke go iface
@decls
type I$u interface{ m() }
type T$u struct{ d chan bool }

func (t *T$u) m() { rt.Enter($e0); t.d <- true }
@body
t$u := &T$u{d: make(chan bool, 1)}
var i$u I$u = t$u
go i$u.m()
<-t$u.d

### gofuncval go funcval
@decls
var done$u = make(chan bool, 1)

func tgt$u()          { rt.Enter($e0); done$u <- true }
func pick$u() func() { rt.Enter($e1); return tgt$u }
@body
f$u := pick$u()
go f$u()
<-done$u

### goarg go funcval
@decls
func tgt$u() { rt.Enter($e0) }
func callf$u(f func(), d chan bool) {
	rt.Enter($e1)
	f()
	d <- true
}
@body
d$u := make(chan bool, 1)
go callf$u(tgt$u, d$u)
<-d$u

### gomethodvalue go funcval
@decls
type T$u struct{ d chan bool }

func (t *T$u) m() { rt.Enter($e0); t.d <- true }
@body
t$u := &T$u{d: make(chan bool, 1)}
f$u := t$u.m
go f$u()
<-t$u.d

### generic generics
@decls
func gtgt$u[T any](x T) T { rt.Enter($e0); return x }
@body
_ = gtgt$u(1)
_ = gtgt$u("s")

### generictype generics
@decls
type Box$u[T any] struct{ v T }

func (b Box$u[T]) Get() T { rt.Enter($e0); return b.v }
@body
_ = Box$u[int]{v: 1}.Get()

### genericcallback generics funcval
@decls
func tgt$u(x int) int                   { rt.Enter($e0); return x }
func gapply$u[T any](f func(T) T, x T) T { rt.Enter($e1); return f(x) }
@body
_ = gapply$u(tgt$u, 1)

### genericiface generics iface
@decls
type I$u interface{ m() }
type T$u struct{ n int }

func (t T$u) m()            { rt.Enter($e0) }
func gcall$u[X I$u](x X) { rt.Enter($e1); x.m() }
@body
gcall$u(T$u{})

### promoted embed
@decls
type T$u struct{ n int }
type W$u struct{ T$u }

func (t T$u) m() { rt.Enter($e0) }
@body
W$u{}.m()

### promotedptr embed
@decls
type T$u struct{ n int }
type W$u struct{ *T$u }

func (t *T$u) m() { rt.Enter($e0) }
@body
W$u{T$u: &T$u{}}.m()

### promotediface embed iface
@decls
type I$u interface{ m() }
type T$u struct{ n int }
type W$u struct{ T$u }

func (t T$u) m() { rt.Enter($e0) }
@body
var i$u I$u = W$u{}
i$u.m()

### embediface embed iface
@decls
type I$u interface{ m() }
type T$u struct{ n int }
type W$u struct{ I$u }

func (t T$u) m() { rt.Enter($e0) }
@body
w$u := W$u{I$u: T$u{}}
w$u.m()

### iface2iface iface assert
@decls
type I$u interface{ m() }
type T$u struct{ n int }

func (t T$u) m() { rt.Enter($e0) }
@body
var a$u any = T$u{}
a$u.(I$u).m()

### iface2ifacenarrow iface assert
@decls
type I$u interface{ m() }
type J$u interface {
	m()
	k()
}
type T$u struct{ n int }

func (t T$u) m() { rt.Enter($e0) }
func (t T$u) k() { rt.Enter($e1) }
@body
var i$u I$u = T$u{}
if j$u, ok := i$u.(J$u); ok {
	j$u.k()
}

### typeswitchiface iface assert
@decls
type I$u interface{ m() }
type T$u struct{ n int }

func (t T$u) m() { rt.Enter($e0) }
@body
var a$u any = T$u{}
switch v$u := a$u.(type) {
case I$u:
	v$u.m()
}

### sortsort std iface
@imports sort
@decls
type S$u []int

func (s S$u) Len() int           { rt.Enter($e0); return len(s) }
func (s S$u) Less(i, j int) bool { rt.Enter($e1); return s[i] < s[j] }
func (s S$u) Swap(i, j int)      { rt.Enter($e2); s[i], s[j] = s[j], s[i] }
@body
sort.Sort(S$u{3, 1, 2})

### sortslice std funcval
@imports sort
@decls
func less$u(a, b int) bool { rt.Enter($e0); return a < b }
@body
l$u := []int{2, 1}
sort.Slice(l$u, func(i, j int) bool {
	rt.Enter($e1)
	return less$u(l$u[i], l$u[j])
})

### iocopywriterto std iface assert
@imports io bytes
@decls
type R$u struct{ done bool }

func (r *R$u) Read(p []byte) (int, error) { rt.Enter($e0); return 0, io.EOF }
func (r *R$u) WriteTo(w io.Writer) (int64, error) {
	rt.Enter($e1)
	return 0, nil
}
@body
var bb$u bytes.Buffer
_, _ = io.Copy(&bb$u, &R$u{})

### stringerfmt std iface
@imports fmt
@decls
type T$u struct{ n int }

func (t T$u) String() string { rt.Enter($e0); return "t" }
@body
_ = fmt.Sprint(T$u{})

### errorfmt std iface
@imports fmt
@decls
type E$u struct{ n int }

func (e E$u) Error() string { rt.Enter($e0); return "e" }
@body
_ = fmt.Sprintf("%v", E$u{})

### synconce std funcval
@imports sync
@decls
func tgt$u() { rt.Enter($e0) }
@body
var o$u sync.Once
o$u.Do(tgt$u)

### stringsmap std funcval
@imports strings
@decls
func tr$u(r rune) rune { rt.Enter($e0); return r }
@body
_ = strings.Map(tr$u, "ab")

### structlitfield funcval
@decls
type H$u struct {
	n int
	f func()
}

func tgt$u()         { rt.Enter($e0) }
func use$u(h *H$u) { rt.Enter($e1); h.f() }
@body
use$u(&H$u{n: 1, f: tgt$u})

### globalinitstruct funcval
@decls
type H$u struct{ f func() }

func tgt$u() { rt.Enter($e0) }

var gh$u = H$u{f: tgt$u}
@body
gh$u.f()

### globalinitcall initroot
@decls
func tgt$u() int { rt.Enter($e0); return 1 }

var gv$u = tgt$u()
@body
_ = gv$u

### initfunc initroot
@decls
func tgt$u() { rt.Enter($e0) }
@init
tgt$u()
@body
_ = 0

### initfuncval initroot funcval
@decls
func tgt$u() { rt.Enter($e0) }

var gi$u func()
@init
gi$u = tgt$u
@body
gi$u()

### libdirect xpkg
@lib
// Tgt$u is a target.
func Tgt$u() { rt.Enter($e0) }
@body
lib.Tgt$u()

### libmethod xpkg
@lib
// T$u is a type.
type T$u struct{ N int }

// M is a method.
func (t *T$u) M() { rt.Enter($e0) }
@body
(&lib.T$u{}).M()

### libiface xpkg iface
@lib
// I$u is an interface.
type I$u interface{ M() }

// Call$u invokes.
func Call$u(i I$u) { rt.Enter($e1); i.M() }
@decls
type T$u struct{ n int }

func (t T$u) M() { rt.Enter($e0) }
@body
lib.Call$u(T$u{})

### libcallback xpkg funcval
@lib
// Apply$u calls f.
func Apply$u(f func()) { rt.Enter($e1); f() }
@decls
func tgt$u() { rt.Enter($e0) }
@body
lib.Apply$u(tgt$u)

### libinit xpkg initroot
@lib
func hidden$u() { rt.Enter($e0) }

func init() { hidden$u() }

// Touch$u makes the package used.
func Touch$u() { rt.Enter($e1) }
@body
lib.Touch$u()

### recursion basic
@decls
func rec$u(n int) {
	rt.Enter($e0)
	if n > 0 {
		rec$u(n - 1)
	}
}
@body
rec$u(2)

### mutualrec basic
@decls
func ra$u(n int) {
	rt.Enter($e0)
	if n > 0 {
		rb$u(n - 1)
	}
}
func rb$u(n int) { rt.Enter($e1); ra$u(n) }
@body
ra$u(2)

### panicrecover defer
@decls
func tgt$u() { rt.Enter($e0) }
func risky$u() {
	rt.Enter($e1)
	defer func() {
		rt.Enter($e2)
		if r := recover(); r != nil {
			tgt$u()
		}
	}()
	panic("x")
}
@body
risky$u()

### boundclosuremethod closure funcval
@decls
type T$u struct{ n int }

func (t *T$u) m() { rt.Enter($e0) }
func run$u(f func()) { rt.Enter($e1); f() }
@body
t$u := &T$u{}
run$u(t$u.m)

### ifacefield iface
@decls
type I$u interface{ m() }
type T$u struct{ n int }
type H$u struct{ i I$u }

func (t T$u) m() { rt.Enter($e0) }
@body
h$u := &H$u{i: T$u{}}
h$u.i.m()

### ifacemap iface
@decls
type I$u interface{ m() }
type T$u struct{ n int }

func (t T$u) m() { rt.Enter($e0) }
@body
m$u := map[string]I$u{"a": T$u{}}
m$u["a"].m()

### ifacereturned iface
@decls
type I$u interface{ m() }
type T$u struct{ n int }

func (t T$u) m()    { rt.Enter($e0) }
func mk$u() I$u { rt.Enter($e1); return T$u{} }
@body
mk$u().m()

### phicall basic
@decls
func ta$u() int { rt.Enter($e0); return 1 }
func tb$u() int { rt.Enter($e1); return 2 }
func use$u(x int) { rt.Enter($e2) }
@body
var r$u int
for i$u := 0; i$u < 2; i$u++ {
	if i$u == 0 {
		r$u = ta$u()
	} else {
		r$u = tb$u()
	}
	use$u(r$u)
}

### loopcarried basic
@decls
func step$u(x int) int { rt.Enter($e0); return x + 1 }
func fin$u(x int)      { rt.Enter($e1) }
@body
acc$u := 0
for i$u := 0; i$u < 2; i$u++ {
	acc$u = step$u(acc$u)
}
fin$u(acc$u)

### rangecarried basic
@decls
func mk$u(x int) []int { rt.Enter($e0); return []int{x} }
func fin$u(x []int)    { rt.Enter($e1) }
@body
var cur$u []int
for _, v$u := range []int{1, 2} {
	cur$u = mk$u(v$u + len(cur$u))
}
fin$u(cur$u)

### phifuncval funcval
@decls
func ta$u() { rt.Enter($e0) }
func tb$u() { rt.Enter($e1) }
@body
for i$u := 0; i$u < 2; i$u++ {
	f$u := ta$u
	if i$u == 1 {
		f$u = tb$u
	}
	f$u()
}

### ifaceTwoConversions iface
@decls
type R$u interface{ read() }
type RC$u interface {
	read()
	closeIt()
}
type T$u struct{ n int }

func (t *T$u) read()    { rt.Enter($e0) }
func (t *T$u) closeIt() { rt.Enter($e1) }
func useR$u(r R$u)     { rt.Enter($e2); r.read() }
func useRC$u(r RC$u)   { rt.Enter($e3); r.read(); r.closeIt() }
@body
t$u := &T$u{}
useR$u(t$u)
useRC$u(t$u)

### switchcall basic
@decls
func ta$u() int { rt.Enter($e0); return 1 }
func tb$u() int { rt.Enter($e1); return 2 }
func tc$u() int { rt.Enter($e2); return 3 }
@body
tot$u := 0
for i$u := 0; i$u < 3; i$u++ {
	var v$u int
	switch i$u {
	case 0:
		v$u = ta$u()
	case 1:
		v$u = tb$u()
	default:
		v$u = tc$u()
	}
	tot$u += v$u
}
_ = tot$u

### structphi funcval
@decls
type Cmd$u struct {
	name string
	run  func()
}

func qa$u()          { rt.Enter($e0) }
func qb$u()          { rt.Enter($e1) }
func exec$u(c Cmd$u) { rt.Enter($e2); c.run() }
@body
for i$u := 0; i$u < 2; i$u++ {
	c$u := Cmd$u{name: "a", run: qa$u}
	if i$u == 1 {
		c$u = Cmd$u{name: "b", run: qb$u}
	}
	exec$u(c$u)
}

### structphiiface iface
@decls
type I$u interface{ m() }
type A$u struct{ n int }
type B$u struct{ n int }
type Holder$u struct {
	n int
	i I$u
}

func (a A$u) m()           { rt.Enter($e0) }
func (b B$u) m()           { rt.Enter($e1) }
func use$u(h Holder$u) { rt.Enter($e2); h.i.m() }
@body
for k$u := 0; k$u < 2; k$u++ {
	h$u := Holder$u{n: 1, i: A$u{}}
	if k$u == 1 {
		h$u = Holder$u{n: 2, i: B$u{}}
	}
	use$u(h$u)
}

### arrayphi funcval
@decls
func qa$u() { rt.Enter($e0) }
func qb$u() { rt.Enter($e1) }
func call$u(fs [1]func()) { rt.Enter($e2); fs[0]() }
@body
for k$u := 0; k$u < 2; k$u++ {
	fs$u := [1]func(){qa$u}
	if k$u == 1 {
		fs$u = [1]func(){qb$u}
	}
	call$u(fs$u)
}

### structphicall funcval
@decls
type Cmd$u struct {
	name string
	run  func()
}

func qa$u()                            { rt.Enter($e0) }
func qb$u()                            { rt.Enter($e1) }
func exec$u(c Cmd$u)                   { rt.Enter($e2); c.run() }
func mk$u(n string, f func()) Cmd$u { rt.Enter($e3); return Cmd$u{name: n, run: f} }
@body
for i$u := 0; i$u < 2; i$u++ {
	c$u := mk$u("a", qa$u)
	if i$u == 1 {
		c$u = mk$u("b", qb$u)
	}
	exec$u(c$u)
}

### structphicalliface iface
@decls
type I$u interface{ m() }
type A$u struct{ n int }
type B$u struct{ n int }
type Holder$u struct {
	n int
	i I$u
}

func (a A$u) m()                { rt.Enter($e0) }
func (b B$u) m()                { rt.Enter($e1) }
func use$u(h Holder$u)      { rt.Enter($e2); h.i.m() }
func mkh$u(i I$u) Holder$u { rt.Enter($e3); return Holder$u{n: 1, i: i} }
@body
h$u := mkh$u(A$u{})
for k$u := 0; k$u < 2; k$u++ {
	use$u(h$u)
	h$u = mkh$u(B$u{})
}
`
