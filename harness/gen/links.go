package gen

import (
	"fmt"
	"sort"
	"strings"
)

// Link is one string->string code template moving data through one Go construct.
//
// Placeholders: $in (input string variable), $out (output string variable the body must declare),
// $u (unique suffix for names), $c (index of an opaque condition bit), $k (a fresh sink/source id).
type Link struct {
	Name    string
	Tags    []string
	Imports []string
	Decls   string // top-level declarations for package main
	Lib     string // top-level declarations for package vprog/lib
	LibImp  []string
	Body    string
}

// HasTag reports whether the link carries tag t.
func (l *Link) HasTag(t string) bool {
	for _, x := range l.Tags {
		if x == t {
			return true
		}
	}
	return false
}

var linkIndex = map[string]*Link{}
var linkOrder []string

// parseLinks parses the DSL:
//
//	### name tag tag
//	@imports a b
//	@libimports a b
//	@decls
//	...
//	@lib
//	...
//	@body
//	...
func parseLinks(src string) {
	var cur *Link
	section := ""
	var sb strings.Builder
	flush := func() {
		if cur == nil {
			return
		}
		txt := strings.Trim(sb.String(), "\n")
		switch section {
		case "decls":
			cur.Decls = txt
		case "lib":
			cur.Lib = txt
		case "body":
			cur.Body = txt
		}
		sb.Reset()
	}
	for _, line := range strings.Split(src, "\n") {
		switch {
		case strings.HasPrefix(line, "### "):
			flush()
			f := strings.Fields(line[4:])
			cur = &Link{Name: f[0], Tags: f[1:]}
			if _, dup := linkIndex[cur.Name]; dup {
				panic("duplicate link " + cur.Name)
			}
			linkIndex[cur.Name] = cur
			linkOrder = append(linkOrder, cur.Name)
			section = ""
		case strings.HasPrefix(line, "@imports"):
			flush()
			cur.Imports = strings.Fields(line)[1:]
			section = ""
		case strings.HasPrefix(line, "@libimports"):
			flush()
			cur.LibImp = strings.Fields(line)[1:]
			section = ""
		case line == "@decls":
			flush()
			section = "decls"
		case line == "@lib":
			flush()
			section = "lib"
		case line == "@body":
			flush()
			section = "body"
		default:
			if section != "" {
				sb.WriteString(line)
				sb.WriteByte('\n')
			}
		}
	}
	flush()
}

// AllLinks returns the link names in definition order, optionally restricted to (or excluding) tags.
func AllLinks(with []string, without []string) []string {
	var out []string
	for _, n := range linkOrder {
		l := linkIndex[n]
		ok := len(with) == 0
		for _, t := range with {
			if l.HasTag(t) {
				ok = true
			}
		}
		for _, t := range without {
			if l.HasTag(t) {
				ok = false
			}
		}
		// links tagged "extra" are only used by the programs that name them (they are in no random pool)
		if l.HasTag("extra") {
			ok = false
			for _, t := range with {
				if t == "extra" {
					ok = true
				}
			}
		}
		if ok {
			out = append(out, n)
		}
	}
	return out
}

// GetLink returns a link by name.
func GetLink(name string) *Link {
	l := linkIndex[name]
	if l == nil {
		panic("unknown link " + name)
	}
	return l
}

// Chain is a sequence of link names; the data goes source -> links -> sink.
type Chain struct {
	ID    int      `json:"id"`
	Links []string `json:"links"`
}

// SecondSourceBase is added to the chain id to form the id of its second source.
const SecondSourceBase = 50000

// Key is the canonical signature string of a link sequence.
func Key(links []string) string { return strings.Join(links, ">") }

// Batch is a generated program made of chains.
type Batch struct {
	Chains []Chain
	// SecondSource adds, to every chain, a second source whose data reaches the same sink call.
	SecondSource bool
	// Prologue/Epilogue kinds can vary the source / sink forms.
}

// Files renders the batch as a module: file name -> content (without the rt package).
func (b *Batch) Files() map[string]string {
	imports := map[string]bool{"vprog/rt": true}
	libImports := map[string]bool{}
	var decls, lib, body strings.Builder
	needLib := false
	for _, ch := range b.Chains {
		fmt.Fprintf(&body, "func chain%d() {\n", ch.ID)
		fmt.Fprintf(&body, "\tx0 := rt.Source(%d)\n", ch.ID)
		links, sinkForm := SplitSinkForm(ch.Links)
		for j, ln := range links {
			l := GetLink(ln)
			u := fmt.Sprintf("_%d_%d", ch.ID, j)
			rep := strings.NewReplacer(
				"$in", fmt.Sprintf("x%d", j),
				"$out", fmt.Sprintf("x%d", j+1),
				"$u", u,
				"$c", fmt.Sprintf("%d", j%6),
				"$k", fmt.Sprintf("%d", 100000+ch.ID*10+j),
			)
			for _, im := range l.Imports {
				imports[im] = true
			}
			for _, im := range l.LibImp {
				libImports[im] = true
			}
			if l.Decls != "" {
				decls.WriteString(rep.Replace(l.Decls))
				decls.WriteString("\n\n")
			}
			if l.Lib != "" {
				needLib = true
				imports["vprog/lib"] = true
				lib.WriteString(rep.Replace(l.Lib))
				lib.WriteString("\n\n")
			}
			fmt.Fprintf(&body, "\t// link %s\n", ln)
			for _, bl := range strings.Split(rep.Replace(l.Body), "\n") {
				body.WriteString("\t" + bl + "\n")
			}
		}
		if b.SecondSource {
			// a second, independent source reaches the same sink call (exercises the merging of results)
			fmt.Fprintf(&body, "\ty%d := string(rt.SourceB(%d))\n", ch.ID, SecondSourceBase+ch.ID)
			fmt.Fprintf(&body, "\trt.Sink(%d, x%d+y%d)\n", ch.ID, len(links), ch.ID)
		} else if sinkForm != "" {
			for _, im := range SinkForms[sinkForm].Imports {
				imports[im] = true
			}
			rep := strings.NewReplacer("$id", fmt.Sprintf("%d", ch.ID), "$v", fmt.Sprintf("x%d", len(links)), "$u", fmt.Sprintf("_%d_s", ch.ID))
			fmt.Fprintf(&body, "\t// sink form %s\n", sinkForm)
			for _, bl := range strings.Split(rep.Replace(SinkForms[sinkForm].Body), "\n") {
				body.WriteString("\t" + bl + "\n")
			}
		} else {
			fmt.Fprintf(&body, "\trt.Sink(%d, x%d)\n", ch.ID, len(links))
		}
		body.WriteString("}\n\n")
	}
	var main strings.Builder
	main.WriteString("package main\n\nimport (\n")
	for _, im := range sortedKeys(imports) {
		fmt.Fprintf(&main, "\t%q\n", im)
	}
	main.WriteString(")\n\n")
	main.WriteString(decls.String())
	main.WriteString(body.String())
	main.WriteString("func main() {\n\tdefer rt.Done()\n")
	for _, ch := range b.Chains {
		fmt.Fprintf(&main, "\trt.Begin(%d)\n\tchain%d()\n", ch.ID, ch.ID)
	}
	main.WriteString("}\n")
	files := map[string]string{"main.go": main.String()}
	if needLib {
		var lb strings.Builder
		lb.WriteString("// Package lib holds cross-package helpers of generated chains.\npackage lib\n\n")
		if len(libImports) > 0 {
			lb.WriteString("import (\n")
			for _, im := range sortedKeys(libImports) {
				fmt.Fprintf(&lb, "\t%q\n", im)
			}
			lb.WriteString(")\n\n")
		}
		lb.WriteString(lib.String())
		files["lib/lib.go"] = lb.String()
	}
	return files
}

func sortedKeys(m map[string]bool) []string {
	var l []string
	for k := range m {
		l = append(l, k)
	}
	sort.Strings(l)
	return l
}

// SinkForm is a way of calling the sink other than a plain call statement. A chain selects one by ending with the
// pseudo-link "@sink<name>"; sub-chains that drop it fall back to the plain call, so attribution works unchanged.
type SinkForm struct {
	Imports []string
	Body    string // $id, $v, $u; exactly one line contains "rt.Sink($id, "
}

// SinkForms lists the terminal pseudo-links.
var SinkForms = map[string]SinkForm{
	"@sinkdefer":        {Body: "defer rt.Sink($id, $v)"},
	"@sinkdeferclosure": {Body: "defer func() {\n\trt.Sink($id, $v)\n}()"},
	"@sinkgo":           {Body: "d$u := make(chan bool)\ngo func(s string) {\n\trt.Sink($id, s)\n\td$u <- true\n}($v)\n<-d$u"},
	"@sinkloop":         {Body: "for i$u := 0; i$u < 2; i$u++ {\n\trt.Sink($id, $v)\n}"},
	"@sinkcbuser":       {Body: "func(f func(string)) { f($v) }(func(p string) {\n\trt.Sink($id, p)\n})"},
	"@sinkcbmap":        {Imports: []string{"strings"}, Body: "_ = strings.Map(func(r rune) rune {\n\trt.SinkR($id, r)\n\treturn r\n}, $v)"},
	"@sinkcbindexfunc":  {Imports: []string{"strings"}, Body: "_ = strings.IndexFunc($v, func(r rune) bool {\n\trt.SinkR($id, r)\n\treturn false\n})"},
	"@sinkmethodval":    {Body: "f$u := rt.Sink\nf$u($id, $v)"},
}

// SinkFormNames returns the pseudo-link names in a fixed order.
func SinkFormNames() []string {
	return []string{"@sinkdefer", "@sinkdeferclosure", "@sinkgo", "@sinkloop", "@sinkcbuser", "@sinkcbmap", "@sinkcbindexfunc"}
}

// SplitSinkForm separates the terminal sink pseudo-link, if any, from the real links.
func SplitSinkForm(links []string) ([]string, string) {
	if n := len(links); n > 0 && strings.HasPrefix(links[n-1], "@sink") {
		return links[:n-1], links[n-1]
	}
	return links, ""
}
