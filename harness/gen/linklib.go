package gen

func init() { parseLinks(linkLib) }

// linkLib is the link library. Every link takes the string $in and must declare the string $out.
// All local and top-level names carry the $u suffix so that any sequence of links composes.
const linkLib = `
### copy values
@body
$out := $in

### concat values
@body
$out := "a" + $in + "b"

### bytesconv values
@body
b$u := []byte($in)
$out := string(b$u)

### runesconv values
@body
r$u := []rune($in)
$out := string(r$u)

### namedtype values
@decls
type T$u string
@body
t$u := T$u($in)
$out := string(t$u)

### sliceexpr values
@body
$out := $in[0:]

### min2 values builtin
@body
$out := min($in, "zzzz")

### max2 values builtin
@body
$out := max($in, "a")

### min3 values builtin
@body
$out := min("zzzy", $in, "zzzz")

### max3 values builtin
@body
$out := max("a", "b", $in)

### sprintf values std
@imports fmt
@body
$out := fmt.Sprintf("%s-%d", $in, 1)

### sprint values std
@imports fmt
@body
$out := fmt.Sprint("v=", $in)

### toupper values std
@imports strings
@body
$out := strings.ToUpper($in)

### trimspace values std
@imports strings
@body
$out := strings.TrimSpace($in)

### replaceall values std
@imports strings
@body
$out := strings.ReplaceAll($in, "q", "w")

### split values std
@imports strings
@body
$out := strings.Split($in, ",")[0]

### join values std
@imports strings
@body
$out := strings.Join([]string{$in, "b"}, ",")

### joinsep values std
@imports strings
@body
$out := strings.Join([]string{"a", "b"}, $in)

### repeat values std
@imports strings
@body
$out := strings.Repeat($in, 2)

### builder values std
@imports strings
@body
var sb$u strings.Builder
sb$u.WriteString($in)
$out := sb$u.String()

### bytesbuf values std
@imports bytes
@body
var bb$u bytes.Buffer
bb$u.WriteString($in)
$out := bb$u.String()

### fprintfbuf values std
@imports bytes fmt
@body
var fb$u bytes.Buffer
fmt.Fprintf(&fb$u, "%s", $in)
$out := fb$u.String()

### quote values std
@imports strconv
@body
$out := strconv.Quote($in)

### errnew values std
@imports errors
@body
$out := errors.New($in).Error()

### errorfw values std
@imports errors fmt
@body
e$u := fmt.Errorf("e: %w", errors.New($in))
$out := e$u.Error()

### pathjoin values std
@imports path
@body
$out := path.Join("a", $in)

### ptr memory
@body
p$u := new(string)
*p$u = $in
$out := *p$u

### ptrptr memory
@body
p$u := new(string)
pp$u := &p$u
**pp$u = $in
$out := *p$u

### addrlocal memory
@body
var v$u string
q$u := &v$u
*q$u = $in
$out := v$u

### ptralias memory
@body
p$u := new(string)
q$u := p$u
*q$u = $in
$out := *p$u

### structfield memory
@decls
type S$u struct{ a, b string }
@body
s$u := S$u{}
s$u.a = $in
$out := s$u.a

### structlit memory
@decls
type S$u struct{ a, b string }
@body
s$u := S$u{b: $in}
$out := s$u.b

### structptr memory
@decls
type S$u struct{ a, b string }
@body
s$u := &S$u{}
s$u.a = $in
$out := s$u.a

### structnested memory
@decls
type I$u struct{ v string }
type O$u struct {
	n int
	in I$u
}
@body
o$u := O$u{}
o$u.in.v = $in
$out := o$u.in.v

### structnestedptr memory
@decls
type I$u struct{ v string }
type O$u struct {
	n  int
	in *I$u
}
@body
o$u := &O$u{in: &I$u{}}
o$u.in.v = $in
$out := o$u.in.v

### structembedded memory
@decls
type E$u struct{ v string }
type W$u struct {
	E$u
	n int
}
@body
w$u := W$u{}
w$u.v = $in
$out := w$u.E$u.v

### structcopy memory
@decls
type S$u struct{ a, b string }
@body
s1$u := S$u{a: $in}
s2$u := s1$u
$out := s2$u.a

### array memory
@body
var a$u [3]string
a$u[1] = $in
$out := a$u[1]

### arraycondidx memory
@imports vprog/rt
@body
var a$u [3]string
i$u := 0
if rt.Cond($c) {
	i$u = 2
}
a$u[i$u] = $in
$out := a$u[i$u]

### sliceelem memory
@body
s$u := make([]string, 3)
s$u[0] = $in
$out := s$u[0]

### slicelit memory
@body
s$u := []string{"a", $in}
$out := s$u[1]

### slicealias memory
@body
s$u := make([]string, 3)
t$u := s$u[1:]
t$u[0] = $in
$out := s$u[1]

### append memory builtin
@body
var s$u []string
s$u = append(s$u, $in)
$out := s$u[0]

### appendspread memory builtin
@body
s$u := []string{"a"}
s$u = append(s$u, []string{$in}...)
$out := s$u[1]

### appendbytes memory builtin
@body
b$u := []byte("p")
b$u = append(b$u, $in...)
$out := string(b$u)

### copyslice memory builtin
@body
d$u := make([]string, 1)
copy(d$u, []string{$in})
$out := d$u[0]

### copybytes memory builtin
@body
d$u := make([]byte, len($in))
copy(d$u, $in)
$out := string(d$u)

### mapvalue memory
@body
m$u := map[string]string{}
m$u["k"] = $in
$out := m$u["k"]

### maplit memory
@body
m$u := map[string]string{"k": $in}
$out := m$u["k"]

### mapcommaok memory
@body
m$u := map[string]string{"k": $in}
$out, _ := m$u["k"]

### mapkeyrange memory
@body
m$u := map[string]int{$in: 1}
var $out string
for k$u := range m$u {
	$out = k$u
}

### mapvalrange memory
@body
m$u := map[int]string{1: $in}
var $out string
for _, v$u := range m$u {
	$out = v$u
}

### mapofslices memory
@body
m$u := map[string][]string{}
m$u["k"] = append(m$u["k"], $in)
$out := m$u["k"][0]

### sliceofstructs memory
@decls
type S$u struct{ a string }
@body
s$u := []S$u{{a: "k"}, {a: $in}}
$out := s$u[1].a

### sliceofptrs memory
@decls
type S$u struct{ a string }
@body
s$u := []*S$u{{a: "k"}}
s$u[0].a = $in
$out := s$u[0].a

### chanbuf memory chan
@body
c$u := make(chan string, 1)
c$u <- $in
$out := <-c$u

### chanselect memory chan
@body
c$u := make(chan string, 1)
d$u := make(chan string, 1)
c$u <- $in
var $out string
select {
case $out = <-c$u:
case $out = <-d$u:
}

### chanrange memory chan
@body
c$u := make(chan string, 1)
c$u <- $in
close(c$u)
var $out string
for v$u := range c$u {
	$out = v$u
}

### chancommaok memory chan
@body
c$u := make(chan string, 1)
c$u <- $in
$out, _ := <-c$u

### chanofptr memory chan
@decls
type S$u struct{ a string }
@body
c$u := make(chan *S$u, 1)
c$u <- &S$u{a: $in}
$out := (<-c$u).a

### rangeslice memory
@body
var $out string
for _, e$u := range []string{$in} {
	$out = e$u
}

### rangestring memory
@body
var rs$u []rune
for _, r$u := range $in {
	rs$u = append(rs$u, r$u)
}
$out := string(rs$u)

### rangearrayptr memory
@body
a$u := [2]string{"k", $in}
var $out string
for _, e$u := range &a$u {
	$out = e$u
}

### indexstring memory
@body
b$u := make([]byte, 0, len($in))
for i$u := 0; i$u < len($in); i$u++ {
	b$u = append(b$u, $in[i$u])
}
$out := string(b$u)

### linkedlist memory
@decls
type N$u struct {
	v    string
	next *N$u
}
@body
n$u := &N$u{v: $in}
h$u := &N$u{next: n$u}
$out := h$u.next.v

### listloop memory
@decls
type N$u struct {
	v    string
	next *N$u
}
@body
h$u := &N$u{v: "k", next: &N$u{v: "k2", next: &N$u{v: $in}}}
var $out string
for c$u := h$u; c$u != nil; c$u = c$u.next {
	$out = c$u.v
}

### slice2array memory
@body
s$u := []string{$in, "k"}
a$u := [2]string(s$u)
$out := a$u[0]

### slice2arrayptr memory
@body
s$u := []string{"k", "k"}
a$u := (*[2]string)(s$u)
a$u[1] = $in
$out := s$u[1]

### boxany iface
@body
var i$u any = $in
$out := i$u.(string)

### boxcommaok iface
@body
var i$u any = $in
$out, _ := i$u.(string)

### typeswitch iface
@body
var i$u any = $in
var $out string
switch v$u := i$u.(type) {
case int:
	$out = "int"
case string:
	$out = v$u
}

### boxstruct iface
@decls
type S$u struct{ a string }
@body
var i$u any = S$u{a: $in}
$out := i$u.(S$u).a

### boxptr iface
@decls
type S$u struct{ a string }
@body
var i$u any = &S$u{a: "k"}
i$u.(*S$u).a = $in
$out := i$u.(*S$u).a

### ifacemethod iface calls
@decls
type G$u interface{ Get() string }
type A$u struct{ v string }

func (a A$u) Get() string { return a.v }
@body
var g$u G$u = A$u{v: $in}
$out := g$u.Get()

### ifacemethod2 iface calls
@imports vprog/rt
@decls
type G$u interface{ Get() string }
type A$u struct{ v string }
type B$u struct{ v string }

func (a A$u) Get() string { return a.v }
func (b B$u) Get() string { return "k" }
@body
var g$u G$u = B$u{v: "k"}
if !rt.Cond($c) {
	g$u = A$u{v: $in}
}
$out := g$u.Get()

### ifacesetget iface calls
@decls
type G$u interface {
	Get() string
	Set(string)
}
type A$u struct{ v string }

func (a *A$u) Get() string  { return a.v }
func (a *A$u) Set(s string) { a.v = s }
@body
var g$u G$u = &A$u{}
g$u.Set($in)
$out := g$u.Get()

### ifacearg iface calls
@decls
type G$u interface{ Put(string) string }
type A$u struct{}

func (A$u) Put(s string) string { return s }
@body
var g$u G$u = A$u{}
$out := g$u.Put($in)

### errorimpl iface calls
@decls
type E$u struct{ m string }

func (e E$u) Error() string { return e.m }
@body
var e$u error = E$u{m: $in}
$out := e$u.Error()

### stringer iface calls std
@imports fmt
@decls
type A$u struct{ v string }

func (a A$u) String() string { return a.v }
@body
$out := fmt.Sprint(A$u{v: $in})

### embeddediface iface calls
@decls
type G$u interface{ Get() string }
type H$u interface {
	G$u
	Other()
}
type A$u struct{ v string }

func (a A$u) Get() string { return a.v }
func (a A$u) Other()      {}
@body
var h$u H$u = A$u{v: $in}
var g$u G$u = h$u
$out := g$u.Get()

### iface2iface iface calls
@decls
type G$u interface{ Get() string }
type A$u struct{ v string }

func (a A$u) Get() string { return a.v }
@body
var i$u any = A$u{v: $in}
$out := i$u.(G$u).Get()

### idcall calls
@decls
func id$u(s string) string { return s }
@body
$out := id$u($in)

### outparam calls
@decls
func outp$u(s string, o *string) { *o = s }
@body
var $out string
outp$u($in, &$out)

### tuple0 calls
@decls
func two$u(s string) (string, string) { return s, "k" }
@body
$out, _ := two$u($in)

### tuple1 calls
@decls
func two$u(s string) (string, string) { return "k", s }
@body
_, $out := two$u($in)

### tupleboth calls
@decls
func two$u(s string) (string, string) { return s[:1], s[1:] }
@body
a$u, b$u := two$u($in)
$out := a$u + b$u

### tuple3 calls
@decls
func three$u(s string) (int, bool, string) { return 1, true, s }
@body
_, _, $out := three$u($in)

### tuple4mid calls
@decls
func four$u(s string) (string, int, string, error) {
	if len(s) == 0 {
		return "", 0, "", nil
	}
	return "k", 1, s, nil
}
@body
_, _, $out, _ := four$u($in)

### tuple3wrap calls
@decls
func three$u(s string) (int, bool, string) { return 1, true, s }
func wrap$u(s string) (int, bool, string)  { return three$u(s) }
@body
_, _, $out := wrap$u($in)

### dupargs calls
@decls
func second$u(a, b string) string { return b }
@body
$out := second$u($in, $in)

### dupargs3 calls
@decls
func third$u(a, b, c string) string { return c }
@body
$out := third$u("k", $in, $in)

### tupleerr calls
@decls
func te$u(s string) (string, error) { return s, nil }
@body
$out, err$u := te$u($in)
if err$u != nil {
	return
}

### variadic calls
@decls
func va$u(xs ...string) string { return xs[len(xs)-1] }
@body
$out := va$u("a", $in)

### variadicspread calls
@decls
func va$u(xs ...string) string { return xs[0] }
@body
l$u := []string{$in}
$out := va$u(l$u...)

### methodval calls
@decls
type A$u struct{ v string }

func (a A$u) Get() string { return a.v }
@body
a$u := A$u{v: $in}
$out := a$u.Get()

### methodptr calls
@decls
type A$u struct{ v string }

func (a *A$u) Set(s string) { a.v = s }
func (a *A$u) Get() string  { return a.v }
@body
a$u := &A$u{}
a$u.Set($in)
$out := a$u.Get()

### methodvalue calls funcval
@decls
type A$u struct{ v string }

func (a A$u) Get() string { return a.v }
@body
a$u := A$u{v: $in}
f$u := a$u.Get
$out := f$u()

### methodvalueptr calls funcval
@decls
type A$u struct{ v string }

func (a *A$u) Set(s string) { a.v = s }
@body
a$u := &A$u{}
f$u := a$u.Set
f$u($in)
$out := a$u.v

### methodexpr calls funcval
@decls
type A$u struct{ v string }

func (a A$u) Get() string { return a.v }
@body
f$u := A$u.Get
$out := f$u(A$u{v: $in})

### funcparam calls funcval
@decls
func id$u(s string) string                             { return s }
func apply$u(f func(string) string, s string) string { return f(s) }
@body
$out := apply$u(id$u, $in)

### funcfield calls funcval
@decls
type H$u struct{ f func(string) string }

func id$u(s string) string { return s }
@body
h$u := H$u{f: id$u}
$out := h$u.f($in)

### funcmap calls funcval
@decls
func id$u(s string) string { return s }
@body
m$u := map[string]func(string) string{"id": id$u}
$out := m$u["id"]($in)

### funcreturned calls funcval
@decls
func id$u(s string) string        { return s }
func mk$u() func(string) string { return id$u }
@body
$out := mk$u()($in)

### funcglobal calls funcval globals
@decls
func id$u(s string) string { return s }

var fg$u = id$u
@body
$out := fg$u($in)

### generic calls generics
@decls
func gid$u[T any](x T) T { return x }
@body
$out := gid$u($in)

### generictype calls generics
@decls
type Box$u[T any] struct{ v T }

func (b Box$u[T]) Get() T { return b.v }
@body
b$u := Box$u[string]{v: $in}
$out := b$u.Get()

### genericptr calls generics
@decls
type Cell$u[T any] struct{ v T }

func (c *Cell$u[T]) Set(x T) { c.v = x }
func (c *Cell$u[T]) Get() T  { return c.v }
@body
c$u := &Cell$u[string]{}
c$u.Set($in)
$out := c$u.Get()

### recursion calls
@decls
func rec$u(s string, n int) string {
	if n == 0 {
		return s
	}
	return rec$u(s, n-1)
}
@body
$out := rec$u($in, 3)

### mutualrec calls
@decls
func ra$u(s string, n int) string {
	if n == 0 {
		return s
	}
	return rb$u(s, n-1)
}
func rb$u(s string, n int) string { return ra$u(s, n) }
@body
$out := ra$u($in, 2)

### deepcall calls
@decls
func d1$u(s string) string { return d2$u(s) }
func d2$u(s string) string { return d3$u(s) }
func d3$u(s string) string { return d4$u(s) }
func d4$u(s string) string { return s }
@body
$out := d1$u($in)

### fillstruct calls memory
@decls
type S$u struct{ a string }

func fill$u(s *S$u, v string) { s.a = v }
@body
s$u := &S$u{}
fill$u(s$u, $in)
$out := s$u.a

### retstruct calls memory
@decls
type S$u struct{ a string }

func mk$u(v string) S$u { return S$u{a: v} }
@body
$out := mk$u($in).a

### retptrlocal calls memory
@decls
func mk$u(v string) *string {
	l := v
	return &l
}
@body
$out := *mk$u($in)

### retslice calls memory
@decls
func mk$u(v string) []string { return []string{"k", v} }
@body
$out := mk$u($in)[1]

### retmap calls memory
@decls
func mk$u(v string) map[string]string { return map[string]string{"k": v} }
@body
$out := mk$u($in)["k"]

### libid calls xpkg
@lib
// Id$u returns its argument.
func Id$u(s string) string { return s }
@body
$out := lib.Id$u($in)

### libbox calls xpkg
@lib
// Box$u is a box.
type Box$u struct{ v string }

// NewBox$u makes a box.
func NewBox$u(s string) *Box$u { return &Box$u{v: s} }

// Get returns the content.
func (b *Box$u) Get() string { return b.v }
@body
$out := lib.NewBox$u($in).Get()

### libiface calls xpkg iface
@lib
// Getter$u is a getter.
type Getter$u interface{ Get() string }

// Fetch$u calls Get.
func Fetch$u(g Getter$u) string { return g.Get() }
@decls
type A$u struct{ v string }

func (a A$u) Get() string { return a.v }
@body
$out := lib.Fetch$u(A$u{v: $in})

### libglobal xpkg globals
@lib
// G$u is a global.
var G$u string

// SetG$u sets it.
func SetG$u(s string) { G$u = s }
@body
lib.SetG$u($in)
$out := lib.G$u

### libglobalreader xpkg globals
@lib
// H$u is a global written by the main package.
var H$u string

// ReadH$u reads it.
func ReadH$u() string { return H$u }
@body
lib.H$u = $in
$out := lib.ReadH$u()

### libglobalboth xpkg globals
@lib
var hidden$u string

// PutI$u stores.
func PutI$u(s string) { hidden$u = s }

// GetI$u loads.
func GetI$u() string { return hidden$u }
@body
lib.PutI$u($in)
$out := lib.GetI$u()

### globalgenericreader globals generics
@decls
var gq$u string

func readq$u[T any](d T) string {
	_ = d
	return gq$u
}
@body
gq$u = $in
$out := readq$u(0)

### localtypea structs localtype
@body
type record struct{ a, b string }
mk$u := func() record { return record{a: $in, b: "x"} }
r$u := mk$u()
rt.Nop2(r$u.b)
$out := r$u.a

### localtypeb structs localtype
@body
type record struct {
	n    int
	y, x string
	rest []string
}
mk$u := func() record { return record{n: 1, y: $in, x: "y"} }
r$u := mk$u()
rt.Nop2(r$u.x)
$out := r$u.y

### forkjoindeepa calls extra
@decls
func fw3$u(s string) string { return fw2$u(s) + "3" }
func fw2$u(s string) string { return fw1$u(s) + "2" }
func fw1$u(s string) string { return s + "1" }
func fpre$u(s string) string { return s + "p" }
func fpass$u(s string) string { return fpass2$u(s) + "!" }
func fpass2$u(s string) string { return fpass1$u(s) + "?" }
func fpass1$u(s string) string { return s + "." }
@body
y$u := fw3$u($in)
w$u := fpre$u($in)
$out := fpass$u(w$u + y$u)

### forkjoindeepb calls extra
@decls
func fw3$u(s string) string { return fw2$u(s) + "3" }
func fw2$u(s string) string { return fw1$u(s) + "2" }
func fw1$u(s string) string { return s + "1" }
func fpre$u(s string) string { return s + "p" }
func fpass$u(s string) string { return fpass2$u(s) + "!" }
func fpass2$u(s string) string { return fpass1$u(s) + "?" }
func fpass1$u(s string) string { return s + "." }
@body
w$u := fpre$u($in)
y$u := fw3$u($in)
$out := fpass$u(w$u + y$u)

### capvalue closures
@body
f$u := func() string { return $in }
$out := f$u()

### caprefwrite closures
@body
var o$u string
f$u := func() { o$u = $in }
f$u()
$out := o$u

### capthenmod closures
@body
v$u := "a"
f$u := func() string { return v$u }
v$u = $in
$out := f$u()

### closureret closures
@body
f$u := func(a string) func() string {
	return func() string { return a }
}
$out := f$u($in)()

### iife closures
@body
$out := func(s string) string { return s }($in)

### closurefield closures funcval
@decls
type H$u struct{ f func() string }
@body
h$u := H$u{}
c$u := $in
h$u.f = func() string { return c$u }
$out := h$u.f()

### closureparam closures funcval
@decls
func apply$u(f func(string) string, s string) string { return f(s) }
@body
p$u := "p"
$out := apply$u(func(s string) string { return p$u + s }, $in)

### closurecapparam closures funcval
@decls
func run$u(f func() string) string { return f() }
@body
c$u := $in
$out := run$u(func() string { return c$u })

### closurewriteparam closures funcval
@decls
func run$u(f func()) { f() }
@body
var o$u string
c$u := $in
run$u(func() { o$u = c$u })
$out := o$u

### closurecounter closures
@body
acc$u := ""
add$u := func(s string) { acc$u += s }
add$u("k")
add$u($in)
$out := acc$u

### closurestruct closures memory
@decls
type S$u struct{ a string }
@body
s$u := &S$u{}
f$u := func(v string) { s$u.a = v }
f$u($in)
$out := s$u.a

### closureloop closures
@body
var fs$u []func() string
for _, e$u := range []string{"k", $in} {
	e$u := e$u
	fs$u = append(fs$u, func() string { return e$u })
}
$out := fs$u[1]()

### syncone closures std
@imports sync
@body
var once$u sync.Once
var o$u string
c$u := $in
once$u.Do(func() { o$u = c$u })
$out := o$u

### sortslice closures std
@imports sort
@body
var o$u string
c$u := $in
l$u := []int{2, 1}
sort.Slice(l$u, func(i, j int) bool {
	o$u = c$u
	return l$u[i] < l$u[j]
})
$out := o$u

### stringsmap closures std
@imports strings
@body
$out := strings.Map(func(r rune) rune { return r }, $in)

### cbuserapply closures
@decls
func apply$u(f func(string), s string) { f(s) }
@body
var o$u string
apply$u(func(p string) { o$u = p }, $in)
$out := o$u

### defernamed defers
@decls
func dn$u(s string) (r string) {
	defer func() { r = s }()
	return "k"
}
@body
$out := dn$u($in)

### defereager defers
@decls
func set$u(p *string, s string) { *p = s }
func de$u(s string) (r string) {
	defer set$u(&r, s)
	return "a"
}
@body
$out := de$u($in)

### deferbranch defers
@imports vprog/rt
@decls
func db$u(s string) (r string) {
	if !rt.Cond($c) {
		defer func() { r = s }()
	}
	return "k"
}
@body
$out := db$u($in)

### defermodify defers
@decls
func dm$u(s string) (r string) {
	defer func() { r = r + "!" }()
	return s
}
@body
$out := dm$u($in)

### deferlocal defers
@body
var o$u string
func() {
	defer func() { o$u = $in }()
}()
$out := o$u

### deferloop defers
@decls
func dl$u(s string) (r string) {
	for i := 0; i < 2; i++ {
		defer func() { r = r + s }()
	}
	return ""
}
@body
$out := dl$u($in)

### deferorder defers
@decls
func do$u(s string) (r string) {
	t := "k"
	defer func() { r = t }()
	defer func() { t = s }()
	return "a"
}
@body
$out := do$u($in)

### global globals
@decls
var g$u string
@body
g$u = $in
$out := g$u

### globalx globals
@decls
var g$u string

func setg$u(s string) { g$u = s }
func getg$u() string  { return g$u }
@body
setg$u($in)
$out := getg$u()

### globalstructx globals
@decls
type S$u struct{ a, b string }

var gs$u S$u

func setg$u(s string) { gs$u.a = s }
func getg$u() string  { return gs$u.a }
@body
setg$u($in)
$out := getg$u()

### globalarrayx globals
@decls
var ga$u [3]string

func setg$u(s string) { ga$u[1] = s }
func getg$u() string  { return ga$u[1] }
@body
setg$u($in)
$out := getg$u()

### globalmapx globals
@decls
var gm$u = map[string]string{}

func setg$u(s string) { gm$u["k"] = s }
func getg$u() string  { return gm$u["k"] }
@body
setg$u($in)
$out := getg$u()

### globalptrx globals
@decls
type S$u struct{ a string }

var gp$u = &S$u{}

func setg$u(s string) { gp$u.a = s }
func getg$u() string  { return gp$u.a }
@body
setg$u($in)
$out := getg$u()

### globalptrstrx globals
@decls
var gp$u = new(string)

func setg$u(s string) { *gp$u = s }
func getg$u() string  { return *gp$u }
@body
setg$u($in)
$out := getg$u()

### globalslicex globals
@decls
var gl$u []string

func setg$u(s string) { gl$u = append(gl$u, s) }
func getg$u() string  { return gl$u[len(gl$u)-1] }
@body
setg$u($in)
$out := getg$u()

### globalsliceelemx globals
@decls
var gl$u = make([]string, 2)

func setg$u(s string) { gl$u[1] = s }
func getg$u() string  { return gl$u[1] }
@body
setg$u($in)
$out := getg$u()

### globalxchg globals
@decls
var gx$u string

func xchg$u(v string) string {
	old := gx$u
	gx$u = v
	return old
}
@body
xchg$u($in)
$out := xchg$u("reset")

### globalxchgptr globals
@decls
type GX$u struct{ v string }

var gxp$u = &GX$u{}

func swap$u(n *GX$u) *GX$u {
	old := gxp$u
	gxp$u = n
	return old
}
@body
swap$u(&GX$u{v: $in})
$out := swap$u(&GX$u{}).v

### globalfuncx globals funcval
@decls
var gf$u func() string

func setg$u(s string) { gf$u = func() string { return s } }
func getg$u() string  { return gf$u() }
@body
setg$u($in)
$out := getg$u()

### globalifacex globals iface
@decls
var gi$u any

func setg$u(s string) { gi$u = s }
func getg$u() string  { return gi$u.(string) }
@body
setg$u($in)
$out := getg$u()

### globalchanx globals chan
@decls
var gc$u = make(chan string, 1)

func setg$u(s string) { gc$u <- s }
func getg$u() string  { return <-gc$u }
@body
setg$u($in)
$out := getg$u()

### globaladdrx globals
@decls
var g$u string

func setp$u(p *string, s string) { *p = s }
@body
setp$u(&g$u, $in)
$out := g$u

### globalclosurex globals closures
@decls
var g$u string
@body
func() { g$u = $in }()
$out := func() string { return g$u }()

### ifdiamond control
@imports vprog/rt
@body
var $out string
if rt.Cond($c) {
	$out = "k"
} else {
	$out = $in
}

### switchctl control
@imports vprog/rt
@body
var $out string
switch {
case rt.Cond($c):
	$out = "k"
default:
	$out = $in
}

### loopphi control
@body
$out := "k"
for i$u := 0; i$u < 2; i$u++ {
	if i$u == 1 {
		$out = $in
	}
}

### loopswap control
@body
a$u, b$u := $in, "k"
for i$u := 0; i$u < 3; i$u++ {
	a$u, b$u = b$u, a$u
}
$out := b$u

### gotoctl control
@body
n$u := 0
$out := "k"
again$u:
if n$u < 1 {
	n$u++
	$out = $in
	goto again$u
}

### earlyret control calls
@imports vprog/rt
@decls
func er$u(s string) string {
	if rt.Cond($c) {
		return "k"
	}
	return s
}
@body
$out := er$u($in)

### jsondecoder stream std
@imports encoding/json strings
@body
var $out string
_ = json.NewDecoder(strings.NewReader(strconvq$u($in))).Decode(&$out)
@decls
func strconvq$u(s string) string { return "\"" + s + "\"" }

### jsonroundtrip stream std
@imports encoding/json
@decls
type J$u struct{ A string }
@body
bs$u, _ := json.Marshal(J$u{A: $in})
var j$u J$u
_ = json.Unmarshal(bs$u, &j$u)
$out := j$u.A

### scanner stream std
@imports bufio strings
@body
sc$u := bufio.NewScanner(strings.NewReader($in))
var $out string
for sc$u.Scan() {
	$out = sc$u.Text()
}

### readall stream std
@imports io strings
@body
bs$u, _ := io.ReadAll(strings.NewReader($in))
$out := string(bs$u)

### readerread stream std
@imports strings
@body
rd$u := strings.NewReader($in)
bf$u := make([]byte, 64)
n$u, _ := rd$u.Read(bf$u)
$out := string(bf$u[:n$u])

### bufiowriter stream std
@imports bufio bytes
@body
var bb$u bytes.Buffer
w$u := bufio.NewWriter(&bb$u)
_, _ = w$u.WriteString($in)
_ = w$u.Flush()
$out := bb$u.String()

### iocopy stream std
@imports bytes io strings
@body
var bb$u bytes.Buffer
_, _ = io.Copy(&bb$u, strings.NewReader($in))
$out := bb$u.String()

### syncmap stream std
@imports sync
@body
var sm$u sync.Map
sm$u.Store("k", $in)
v$u, _ := sm$u.Load("k")
$out := v$u.(string)

### atomicvalue stream std
@imports sync/atomic
@body
var av$u atomic.Value
av$u.Store($in)
$out := av$u.Load().(string)

### containerlist stream std
@imports container/list
@body
l$u := list.New()
l$u.PushBack($in)
$out := l$u.Front().Value.(string)

### sortstrings stream std
@imports sort
@body
ss$u := []string{"zzz", $in}
sort.Strings(ss$u)
$out := ss$u[0]

### urlescape stream std
@imports net/url
@body
$out := url.QueryEscape($in)

### base64rt stream std
@imports encoding/base64
@body
e$u := base64.StdEncoding.EncodeToString([]byte($in))
d$u, _ := base64.StdEncoding.DecodeString(e$u)
$out := string(d$u)

### hexrt stream std
@imports encoding/hex
@body
d$u, _ := hex.DecodeString(hex.EncodeToString([]byte($in)))
$out := string(d$u)

### san guard sanitizer
@imports vprog/rt
@body
$out := rt.Sanitize($in)

### sanbranch guard sanitizer
@imports vprog/rt
@body
var $out string
if rt.Cond($c) {
	$out = rt.Sanitize($in)
} else {
	$out = $in
}

### sanignored guard sanitizer
@imports vprog/rt
@body
_ = rt.Sanitize($in)
$out := $in

### sancopy guard sanitizer
@imports vprog/rt
@body
c$u := $in
s$u := rt.Sanitize(c$u)
$out := $in + s$u

### sancallee guard sanitizer
@imports vprog/rt
@decls
func clean$u(s string) string { return rt.Sanitize(s) }
@body
$out := clean$u($in)

### sanptr guard sanitizer
@imports vprog/rt
@body
p$u := new(string)
*p$u = $in
q$u := rt.Sanitize(*p$u)
$out := *p$u + q$u

### valif guard validator
@imports vprog/rt
@body
if !rt.Validate($in) {
	return
}
$out := $in

### valifelse guard validator
@imports vprog/rt
@body
var $out string
if rt.Validate($in) {
	$out = $in
} else {
	return
}

### valneg guard validator
@imports vprog/rt
@body
if rt.Validate($in) {
	return
}
$out := $in

### valbypass guard validator
@imports vprog/rt
@body
if rt.Cond($c) {
	if !rt.Validate($in) {
		return
	}
}
$out := $in

### valonearm guard validator
@imports vprog/rt
@body
var $out string
if rt.Validate($in) {
	$out = $in + "v"
} else {
	$out = $in + "u"
}

### valerr guard validator
@imports vprog/rt
@body
if err$u := rt.ValidateErr($in); err$u != nil {
	return
}
$out := $in

### valerrfall guard validator
@imports vprog/rt
@body
if err$u := rt.ValidateErr($in); err$u != nil {
	rt.Nop()
}
$out := $in

### valerrneg guard validator
@imports vprog/rt
@body
if err$u := rt.ValidateErr($in); err$u == nil {
	return
}
$out := $in

### valignored guard validator
@imports vprog/rt
@body
_ = rt.Validate($in)
$out := $in

### valother guard validator
@imports vprog/rt
@body
if !rt.Validate("other") {
	return
}
$out := $in

### valcallee guard validator
@imports vprog/rt
@decls
func chk$u(s string) bool { return rt.Validate(s) }
@body
if !chk$u($in) {
	return
}
$out := $in

### valvar guard validator
@imports vprog/rt
@body
ok$u := rt.Validate($in)
$out := $in
if !ok$u {
	return
}

### vallate guard validator
@imports vprog/rt
@decls
var late$u string
@body
late$u = $in
if !rt.Validate($in) {
	return
}
$out := late$u

### valloop guard validator
@imports vprog/rt
@body
$out := ""
for i$u := 0; i$u < 2; i$u++ {
	if i$u == 0 && !rt.Validate($in) {
		continue
	}
	$out = $in
}

### valswitch guard validator
@imports vprog/rt
@body
var $out string
switch {
case rt.Cond($c):
	$out = $in
case rt.Validate($in):
	$out = $in
default:
	return
}

### valany guard validator
@imports vprog/rt
@body
var a$u any = $in
if !rt.ValidateAny(a$u) {
	return
}
$out := $in

### valnegvar guard validator
@imports vprog/rt
@body
inv$u := !rt.Validate($in)
var $out string
if inv$u {
	$out = $in
} else {
	return
}

### valnegvarfall guard validator
@imports vprog/rt
@body
inv$u := !rt.Validate($in)
if !inv$u {
	return
}
$out := $in

### valorforce guard validator
@imports vprog/rt
@body
var $out string
if rt.Validate($in) || rt.Cond($c) {
	$out = $in
} else {
	return
}

### valshortthen guard validator
@imports vprog/rt
@body
$out := $in
if rt.Validate($in) {
	rt.Nop()
} else {
	rt.Nop()
	rt.Nop()
	$out = $out + "u"
}

### vallogonly guard validator
@imports vprog/rt
@body
if !rt.Validate($in) {
	rt.Nop()
}
$out := $in

### valstruct guard validator
@imports vprog/rt
@decls
type V$u struct{ s string }
@body
v$u := V$u{s: $in}
if !rt.Validate(v$u.s) {
	return
}
$out := v$u.s

### gochan conc
@body
c$u := make(chan string)
go func() { c$u <- $in }()
$out := <-c$u

### goarg conc
@body
r$u := make(chan string, 1)
go func(s string) { r$u <- s }($in)
$out := <-r$u

### gocapwrite conc
@imports sync
@body
var o$u string
var wg$u sync.WaitGroup
wg$u.Add(1)
go func() {
	o$u = $in
	wg$u.Done()
}()
wg$u.Wait()
$out := o$u

### gostruct conc
@imports sync
@decls
type H$u struct{ v string }
@body
h$u := &H$u{}
var wg$u sync.WaitGroup
wg$u.Add(1)
go func() {
	h$u.v = $in
	wg$u.Done()
}()
wg$u.Wait()
$out := h$u.v

### goglobal conc globals
@imports sync
@decls
var gg$u string
@body
var wg$u sync.WaitGroup
wg$u.Add(1)
go func() {
	gg$u = $in
	wg$u.Done()
}()
wg$u.Wait()
$out := gg$u

### goworker conc
@imports sync
@decls
func worker$u(s string, out *string, wg *sync.WaitGroup) {
	*out = s
	wg.Done()
}
@body
var o$u string
var wg$u sync.WaitGroup
wg$u.Add(1)
go worker$u($in, &o$u, &wg$u)
wg$u.Wait()
$out := o$u

### gomutex conc
@imports sync
@decls
type M$u struct {
	mu sync.Mutex
	v  string
}
@body
m$u := &M$u{}
d$u := make(chan bool)
go func() {
	m$u.mu.Lock()
	m$u.v = $in
	m$u.mu.Unlock()
	d$u <- true
}()
<-d$u
m$u.mu.Lock()
$out := m$u.v
m$u.mu.Unlock()

### gomapshared conc
@imports sync
@body
m$u := map[string]string{}
var wg$u sync.WaitGroup
wg$u.Add(1)
go func() {
	m$u["k"] = $in
	wg$u.Done()
}()
wg$u.Wait()
$out := m$u["k"]

### goreader conc
@decls
type H$u struct{ v string }
@body
h$u := &H$u{v: $in}
r$u := make(chan string, 1)
go func() { r$u <- h$u.v }()
$out := <-r$u

### gochanofptr conc
@decls
type H$u struct{ v string }
@body
c$u := make(chan *H$u)
go func() { c$u <- &H$u{v: $in} }()
$out := (<-c$u).v

### gopipeline conc
@body
a$u := make(chan string)
b$u := make(chan string)
go func() { a$u <- $in }()
go func() { b$u <- <-a$u }()
$out := <-b$u

### gomethod conc
@imports sync
@decls
type W$u struct {
	v  string
	wg sync.WaitGroup
}

func (w *W$u) run(s string) {
	w.v = s
	w.wg.Done()
}
@body
w$u := &W$u{}
w$u.wg.Add(1)
go w$u.run($in)
w$u.wg.Wait()
$out := w$u.v

### goselmixed conc
@decls
type H$u struct{ v string }
@body
pc$u := make(chan *H$u, 1)
tick$u := make(chan int)
ack$u := make(chan bool)
back$u := make(chan string, 1)
go func() {
	h := &H$u{}
	pc$u <- h
	<-ack$u
	back$u <- h.v
}()
select {
case n := <-tick$u:
	_ = n
case h := <-pc$u:
	h.v = $in
}
ack$u <- true
$out := <-back$u

### goinlinecap conc
@decls
type H$u struct{ v string }
@body
h$u := &H$u{}
req$u := make(chan bool)
back$u := make(chan string, 1)
go func(p *H$u) {
	<-req$u
	back$u <- p.v
}(h$u)
func() { h$u.v = $in }()
req$u <- true
$out := <-back$u

### godefercap conc
@decls
type H$u struct{ v string }
@body
h$u := &H$u{}
req$u := make(chan bool)
back$u := make(chan string, 1)
go func(p *H$u) {
	<-req$u
	back$u <- p.v
}(h$u)
func() {
	defer func() { h$u.v = $in }()
}()
req$u <- true
$out := <-back$u
`
