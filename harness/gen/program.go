package gen

import (
	_ "embed"
	"fmt"
	"os"
	"os/exec"
	"path/filepath"
	"regexp"
	"strconv"
	"strings"
)

//go:embed rtsrc/stub.go.txt
var rtStub string

//go:embed rtsrc/native.go.txt
var rtNative string

// RuntimeFiles returns the module file and monitor runtime sources that accompany every generated program.
func RuntimeFiles() map[string]string {
	return map[string]string{
		"go.mod":          "module vprog\n\ngo 1.22\n",
		"rt/rt_stub.go":   rtStub,
		"rt/rt_native.go": rtNative,
	}
}

// WriteProgram writes a generated module (module path vprog) with the monitor runtime under dir.
func WriteProgram(dir string, files map[string]string) error {
	all := RuntimeFiles()
	for k, v := range files {
		all[k] = v
	}
	for name, content := range all {
		p := filepath.Join(dir, name)
		if err := os.MkdirAll(filepath.Dir(p), 0o755); err != nil {
			return err
		}
		if err := os.WriteFile(p, []byte(content), 0o644); err != nil {
			return err
		}
	}
	return nil
}

// GoEnv is the pinned environment for go commands.
func GoEnv() []string {
	return append(os.Environ(), "GOFLAGS=-mod=mod", "GOPROXY=off", "GOSUMDB=off", "GOTOOLCHAIN=local")
}

// BuildNative builds the program with the native monitor runtime; extra are extra go build flags (e.g. -race).
func BuildNative(dir string, extra ...string) (string, error) {
	bin := filepath.Join(dir, "native.bin")
	args := append([]string{"build", "-tags", "vnative"}, extra...)
	args = append(args, "-o", bin, ".")
	cmd := exec.Command("go", args...)
	cmd.Dir = dir
	cmd.Env = GoEnv()
	out, err := cmd.CombinedOutput()
	if err != nil {
		return "", fmt.Errorf("native build failed: %v\n%s", err, out)
	}
	return bin, nil
}

// VetStub type-checks the analyzer-visible variant (stub runtime); used to catch generator bugs early.
func VetStub(dir string) error {
	cmd := exec.Command("go", "build", "-o", os.DevNull, "./...")
	cmd.Dir = dir
	cmd.Env = GoEnv()
	out, err := cmd.CombinedOutput()
	if err != nil {
		return fmt.Errorf("stub build failed: %v\n%s", err, out)
	}
	return nil
}

// Event is one line of the native event log.
type Event struct {
	Kind string // K sink, V validate, E enter, P probe, M mark
	ID   int
	Raw  []int
	San  []int
	OK   bool
	Addr string
	Type string
	// Enter events: who called
	Caller     int
	CallerLine int
	CallKind   string
}

func parseIDs(s string) []int {
	if s == "" {
		return nil
	}
	var out []int
	for _, p := range strings.Split(s, ",") {
		n, err := strconv.Atoi(p)
		if err == nil {
			out = append(out, n)
		}
	}
	return out
}

// ParseEvents parses an event log.
func ParseEvents(data string) []Event {
	var evs []Event
	for _, line := range strings.Split(data, "\n") {
		f := strings.Fields(line)
		if len(f) == 0 {
			continue
		}
		ev := Event{Kind: f[0]}
		switch f[0] {
		case "K":
			ev.ID, _ = strconv.Atoi(f[1])
			for _, kv := range f[2:] {
				if strings.HasPrefix(kv, "raw=") {
					ev.Raw = parseIDs(kv[4:])
				}
				if strings.HasPrefix(kv, "san=") {
					ev.San = parseIDs(kv[4:])
				}
			}
		case "V":
			for _, kv := range f[1:] {
				if strings.HasPrefix(kv, "raw=") {
					ev.Raw = parseIDs(kv[4:])
				}
				if strings.HasPrefix(kv, "ok=") {
					ev.OK = kv[3:] == "true"
				}
			}
		case "B":
			ev.ID, _ = strconv.Atoi(f[1])
		case "E", "M":
			ev.ID, _ = strconv.Atoi(f[1])
			if len(f) >= 5 {
				ev.Caller, _ = strconv.Atoi(f[2])
				ev.CallerLine, _ = strconv.Atoi(f[3])
				ev.CallKind = f[4]
			}
		case "P", "Q":
			ev.ID, _ = strconv.Atoi(f[1])
			if len(f) > 2 {
				ev.Addr = f[2]
			}
			if len(f) > 3 {
				ev.Type = strings.Join(f[3:], " ")
			}
		default:
			continue
		}
		evs = append(evs, ev)
	}
	return evs
}

// RunNative runs the native binary with the given opaque bits and returns its events.
func RunNative(bin string, bits string, vbits string, evfile string, extraEnv ...string) ([]Event, error) {
	_ = os.Remove(evfile)
	cmd := exec.Command(bin)
	cmd.Env = append(os.Environ(), "VERIF_BITS="+bits, "VERIF_VBITS="+vbits, "VERIF_EVENTS="+evfile)
	cmd.Env = append(cmd.Env, extraEnv...)
	out, err := cmd.CombinedOutput()
	data, _ := os.ReadFile(evfile)
	evs := ParseEvents(string(data))
	if err != nil {
		return evs, fmt.Errorf("native run failed (bits=%s): %v\n%s", bits, err, tail(string(out), 2000))
	}
	return evs, nil
}

func tail(s string, n int) string {
	if len(s) <= n {
		return s
	}
	return s[len(s)-n:]
}

var reSrc = regexp.MustCompile(`rt\.Source[B]?\((\d+)\)`)
var reSnk = regexp.MustCompile(`rt\.Sink[SR2]?\((\d+),`)

// SiteMap maps file:line to source/sink ids by scanning the generated text.
type SiteMap struct {
	SrcLine map[string]int // "file:line" -> id
	SnkLine map[string]int
	SrcOf   map[int]string
	SnkOf   map[int]string
}

// ScanSites scans generated files for source and sink call sites.
func ScanSites(files map[string]string) *SiteMap {
	sm := &SiteMap{SrcLine: map[string]int{}, SnkLine: map[string]int{}, SrcOf: map[int]string{}, SnkOf: map[int]string{}}
	for name, content := range files {
		if !strings.HasSuffix(name, ".go") {
			continue
		}
		for i, line := range strings.Split(content, "\n") {
			key := fmt.Sprintf("%s:%d", name, i+1)
			if m := reSrc.FindStringSubmatch(line); m != nil {
				id, _ := strconv.Atoi(m[1])
				sm.SrcLine[key] = id
				sm.SrcOf[id] = key
			}
			if m := reSnk.FindStringSubmatch(line); m != nil {
				id, _ := strconv.Atoi(m[1])
				sm.SnkLine[key] = id
				sm.SnkOf[id] = key
			}
		}
	}
	return sm
}
