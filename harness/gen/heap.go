package gen

import (
	"fmt"
	"strings"
)

// HeapRand is the random source used by the heap-shape generator.
type HeapRand interface{ Intn(n int) int }

type heapVar struct {
	name string
	typ  string // P = *T, S = []*T, M = map[string]*T, C = chan *T, PP = **T, I = any, F = func() *T
}

type heapGen struct {
	r      HeapRand
	sb     strings.Builder
	vars   []heapVar
	nextID *int
	births map[int]bool
	inds   map[int]bool
	fn     int
	nv     int
}

func (g *heapGen) pick(typ string) (heapVar, bool) {
	var c []heapVar
	for _, v := range g.vars {
		if v.typ == typ {
			c = append(c, v)
		}
	}
	if len(c) == 0 {
		return heapVar{}, false
	}
	return c[g.r.Intn(len(c))], true
}

func (g *heapGen) fresh(typ string) heapVar {
	g.nv++
	v := heapVar{name: fmt.Sprintf("v%d_%d", g.fn, g.nv), typ: typ}
	g.vars = append(g.vars, v)
	return v
}

func (g *heapGen) probe(v heapVar, birth bool) {
	id := *g.nextID
	*g.nextID++
	if birth {
		g.births[id] = true
	}
	fmt.Fprintf(&g.sb, "\trt.Probe(%d, %s)\n", id, v.name)
}

func (g *heapGen) line(format string, a ...any) {
	g.sb.WriteString("\t" + fmt.Sprintf(format, a...) + "\n")
}

// step emits one random heap operation followed by probes of the values it defines.
func (g *heapGen) step() {
	switch g.r.Intn(28) {
	case 0, 1:
		v := g.fresh("P")
		if g.r.Intn(2) == 0 {
			g.line("%s := &T{n: %d}", v.name, g.nv)
		} else {
			g.line("%s := new(T)", v.name)
		}
		g.probe(v, true)
	case 2:
		v := g.fresh("S")
		g.line("%s := make([]*T, 2, 4)", v.name)
		g.probe(v, true)
	case 3:
		v := g.fresh("M")
		g.line("%s := make(map[string]*T)", v.name)
		g.probe(v, true)
	case 4:
		v := g.fresh("C")
		g.line("%s := make(chan *T, 4)", v.name)
		g.probe(v, true)
	case 5:
		for _, t := range []string{"P", "S", "M", "C"} {
			if a, ok := g.pick(t); ok && g.r.Intn(2) == 0 {
				v := g.fresh(t)
				g.line("%s := %s", v.name, a.name)
				g.probe(v, false)
				return
			}
		}
	case 6:
		a, ok1 := g.pick("P")
		b, ok2 := g.pick("P")
		if ok1 && ok2 {
			g.line("%s.f = %s", a.name, b.name)
		}
	case 7:
		if a, ok := g.pick("P"); ok {
			v := g.fresh("P")
			g.line("%s := %s.f", v.name, a.name)
			g.probe(v, false)
		}
	case 8:
		s, ok1 := g.pick("S")
		b, ok2 := g.pick("P")
		if ok1 && ok2 {
			g.line("%s[%d] = %s", s.name, g.r.Intn(2), b.name)
		}
	case 9:
		if s, ok := g.pick("S"); ok {
			v := g.fresh("P")
			g.line("%s := %s[%d]", v.name, s.name, g.r.Intn(2))
			g.probe(v, false)
		}
	case 10:
		s, ok1 := g.pick("S")
		b, ok2 := g.pick("P")
		if ok1 && ok2 {
			v := g.fresh("S")
			g.line("%s := append(%s, %s)", v.name, s.name, b.name)
			g.probe(v, false)
		}
	case 11:
		m, ok1 := g.pick("M")
		b, ok2 := g.pick("P")
		if ok1 && ok2 {
			g.line("%s[\"k%d\"] = %s", m.name, g.r.Intn(2), b.name)
		}
	case 12:
		if m, ok := g.pick("M"); ok {
			v := g.fresh("P")
			g.line("%s := %s[\"k%d\"]", v.name, m.name, g.r.Intn(2))
			g.probe(v, false)
		}
	case 13:
		c, ok1 := g.pick("C")
		b, ok2 := g.pick("P")
		if ok1 && ok2 {
			v := g.fresh("P")
			g.line("%s <- %s", c.name, b.name)
			g.line("%s := <-%s", v.name, c.name)
			g.probe(v, false)
		}
	case 14:
		if a, ok := g.pick("P"); ok {
			v := g.fresh("P")
			g.line("%s := idT(%s)", v.name, a.name)
			g.probe(v, false)
		}
	case 15:
		a, ok1 := g.pick("P")
		b, ok2 := g.pick("P")
		if ok1 && ok2 {
			g.line("setF(%s, %s)", a.name, b.name)
		}
	case 16:
		if a, ok := g.pick("P"); ok {
			v := g.fresh("P")
			g.line("%s := func() *T { return %s }()", v.name, a.name)
			g.probe(v, false)
		}
	case 17:
		if a, ok := g.pick("P"); ok {
			v := g.fresh("P")
			g.nv++
			g.line("var a%d_%d any = %s", g.fn, g.nv, a.name)
			g.line("%s, _ := a%d_%d.(*T)", v.name, g.fn, g.nv)
			g.probe(v, false)
		}
	case 18:
		a, ok1 := g.pick("P")
		b, ok2 := g.pick("P")
		if ok1 && ok2 {
			v := g.fresh("P")
			g.line("%s := %s", v.name, a.name)
			g.line("if rt.Cond(%d) {", g.r.Intn(6))
			g.line("\t%s = %s", v.name, b.name)
			g.line("}")
			g.probe(v, false)
		}
	case 19:
		if a, ok := g.pick("P"); ok {
			v := g.fresh("P")
			g.line("gT = %s", a.name)
			g.line("%s := loadG()", v.name)
			g.probe(v, false)
		}
	case 20:
		a, ok1 := g.pick("P")
		b, ok2 := g.pick("P")
		if ok1 && ok2 {
			v := g.fresh("P")
			g.nv++
			g.line("pp%d_%d := &%s.f", g.fn, g.nv, a.name)
			g.line("*pp%d_%d = %s", g.fn, g.nv, b.name)
			g.line("%s := *pp%d_%d", v.name, g.fn, g.nv)
			g.probe(v, false)
		}
	case 26, 27:
		// pointer to a pointer field obtained through a small accessor called from several sites
		if a, ok := g.pick("P"); ok {
			g.nv++
			g.line("q%d_%d := %s.slot()", g.fn, g.nv, a.name)
			id := *g.nextID
			*g.nextID++
			g.inds[id] = true
			g.line("rt.ProbeInd(%d, q%d_%d)", id, g.fn, g.nv)
			if b, ok2 := g.pick("P"); ok2 && g.r.Intn(2) == 0 {
				g.line("*q%d_%d = %s", g.fn, g.nv, b.name)
				id2 := *g.nextID
				*g.nextID++
				g.inds[id2] = true
				g.line("rt.ProbeInd(%d, q%d_%d)", id2, g.fn, g.nv)
			}
		}
	case 21:
		if s, ok := g.pick("S"); ok {
			v := g.fresh("S")
			g.line("%s := %s[0:]", v.name, s.name)
			g.probe(v, false)
		}
	case 22:
		if a, ok := g.pick("P"); ok {
			v := g.fresh("P")
			g.line("%s := %s.next()", v.name, a.name)
			g.probe(v, false)
		}
	case 23:
		a, ok1 := g.pick("P")
		s, ok2 := g.pick("S")
		if ok1 && ok2 {
			g.line("%s.s = %s", a.name, s.name)
			v := g.fresh("S")
			g.line("%s := %s.s", v.name, a.name)
			g.probe(v, false)
		}
	case 24:
		a, ok1 := g.pick("P")
		m, ok2 := g.pick("M")
		if ok1 && ok2 {
			g.line("%s.m = %s", a.name, m.name)
			v := g.fresh("M")
			g.line("%s := %s.m", v.name, a.name)
			g.probe(v, false)
		}
	case 25:
		if a, ok := g.pick("P"); ok {
			v := g.fresh("P")
			g.nv++
			g.line("var i%d_%d Noder = %s", g.fn, g.nv, a.name)
			g.line("%s := i%d_%d.next()", v.name, g.fn, g.nv)
			g.probe(v, false)
		}
	}
}

// RenderHeapProgram renders nFuncs scripts of nSteps steps each. It returns the files and the set of birth probes.
func RenderHeapProgram(r HeapRand, nFuncs, nSteps int) (map[string]string, map[int]bool) {
	files, births, _ := RenderHeapProgram2(r, nFuncs, nSteps)
	return files, births
}

// RenderHeapProgram2 also returns the set of indirect probes (rt.ProbeInd).
func RenderHeapProgram2(r HeapRand, nFuncs, nSteps int) (map[string]string, map[int]bool, map[int]bool) {
	var sb strings.Builder
	sb.WriteString(`package main

import "vprog/rt"

// T is the node type of the generated heap shapes.
type T struct {
	n int
	f *T
	s []*T
	m map[string]*T
}

// Noder is implemented by *T.
type Noder interface{ next() *T }

func (t *T) next() *T { return t.f }

func (t *T) slot() **T { return &t.f }

var gT *T

func idT(p *T) *T    { return p }
func setF(a, b *T) { a.f = b }
func loadG() *T     { return gT }

`)
	next := 1
	births := map[int]bool{}
	inds := map[int]bool{}
	for f := 0; f < nFuncs; f++ {
		g := &heapGen{r: r, nextID: &next, births: births, inds: inds, fn: f}
		// every script starts with a few allocations so that the pool is never empty
		for _, k := range []int{0, 0, 2, 3, 4} {
			_ = k
		}
		v1 := g.fresh("P")
		g.line("%s := &T{n: 1}", v1.name)
		g.probe(v1, true)
		v2 := g.fresh("P")
		g.line("%s := &T{n: 2, f: %s}", v2.name, v1.name)
		g.probe(v2, true)
		v3 := g.fresh("S")
		g.line("%s := []*T{%s, %s}", v3.name, v1.name, v2.name)
		g.probe(v3, true)
		v4 := g.fresh("M")
		g.line("%s := map[string]*T{\"k0\": %s}", v4.name, v2.name)
		g.probe(v4, true)
		for s := 0; s < nSteps; s++ {
			g.step()
		}
		fmt.Fprintf(&sb, "func script%d() {\n%s", f, g.sb.String())
		// keep every variable used
		for _, v := range g.vars {
			fmt.Fprintf(&sb, "\t_ = %s\n", v.name)
		}
		sb.WriteString("}\n\n")
	}
	sb.WriteString("func main() {\n\tdefer rt.Done()\n")
	for f := 0; f < nFuncs; f++ {
		fmt.Fprintf(&sb, "\trt.Mark(%d)\n\trt.Try(script%d)\n", f, f)
	}
	sb.WriteString("}\n")
	return map[string]string{"main.go": sb.String()}, births, inds
}
