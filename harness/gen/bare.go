package gen

import (
	"fmt"
	"strings"
)

// Bare programs probe with the builtin println only and import nothing at all (an imported standard package can bring
// functions of packages the analyzer does not recognise as standard, whose interface-typed operands are then queried): no value of a user function has an
// interface type, and every map, channel and slice has a *named* type. The pointer analysis then has to derive what
// it tracks from those named types alone (with an interface-typed operand anywhere it simply tracks everything).

type bareGen struct {
	r      HeapRand
	sb     strings.Builder
	vars   []heapVar // typ: NM, NC, NS
	nextID *int
	births map[int]bool
	keep   *int
	fn     int
	nv     int
}

var bareKinds = []string{"NM", "NC", "NS"}

func (g *bareGen) pick(typ string) (heapVar, bool) {
	var c []heapVar
	for _, v := range g.vars {
		if v.typ == typ {
			c = append(c, v)
		}
	}
	if len(c) == 0 {
		return heapVar{}, false
	}
	return c[g.r.Intn(len(c))], true
}

func (g *bareGen) fresh(typ string) heapVar {
	g.nv++
	v := heapVar{name: fmt.Sprintf("v%d_%d", g.fn, g.nv), typ: typ}
	g.vars = append(g.vars, v)
	return v
}

func (g *bareGen) line(format string, a ...any) {
	g.sb.WriteString("\t" + fmt.Sprintf(format, a...) + "\n")
}

func (g *bareGen) probe(v heapVar, birth bool) {
	id := *g.nextID
	*g.nextID++
	if birth {
		g.births[id] = true
	}
	g.line("println(\"P\", %d, \"%s\", %s)", id, v.typ, v.name)
}

// alloc emits an allocation, publishes the object in a global array (so that it lives on the heap: a stack slot
// reused by a later script would make two different objects share an address) and probes it.
func (g *bareGen) alloc(k string) {
	v := g.fresh(k)
	g.line("%s := %s", v.name, bareMake(k))
	g.probe(v, true)
	g.line("keep%s[%d] = %s", k, *g.keep, v.name)
	*g.keep++
}

func bareMake(typ string) string {
	switch typ {
	case "NM":
		return "make(NM)"
	case "NC":
		return "make(NC, 4)"
	}
	return "make(NS, 2, 4)"
}

func (g *bareGen) step() {
	k := bareKinds[g.r.Intn(len(bareKinds))]
	switch g.r.Intn(12) {
	case 0, 1:
		g.alloc(k)
	case 2:
		if a, ok := g.pick(k); ok {
			v := g.fresh(k)
			g.line("%s := %s", v.name, a.name)
			g.probe(v, false)
		}
	case 3:
		if a, ok := g.pick(k); ok {
			v := g.fresh(k)
			g.line("%s := id%s(%s)", v.name, k, a.name)
			g.probe(v, false)
		}
	case 4:
		if a, ok := g.pick(k); ok {
			g.line("%s.touch()", a.name)
		}
	case 5:
		a, ok1 := g.pick(k)
		b, ok2 := g.pick(k)
		if ok1 && ok2 {
			v := g.fresh(k)
			g.line("%s := %s", v.name, a.name)
			g.line("if cond(%d) {", g.r.Intn(6))
			g.line("\t%s = %s", v.name, b.name)
			g.line("}")
			g.probe(v, false)
		}
	case 6:
		if a, ok := g.pick(k); ok {
			v := g.fresh(k)
			g.line("g%s = %s", k, a.name)
			g.line("%s := load%s()", v.name, k)
			g.probe(v, false)
		}
	case 7:
		if a, ok := g.pick(k); ok {
			v := g.fresh(k)
			g.line("%s := func() %s { return %s }()", v.name, k, a.name)
			g.probe(v, false)
		}
	case 8:
		if a, ok := g.pick(k); ok {
			v := g.fresh(k)
			g.nv++
			f := map[string]string{"NM": "m", "NC": "c", "NS": "s"}[k]
			g.line("b%d_%d := Box{%s: %s}", g.fn, g.nv, f, a.name)
			g.line("%s := b%d_%d.%s", v.name, g.fn, g.nv, f)
			g.probe(v, false)
		}
	case 9:
		if a, ok := g.pick("NS"); ok {
			v := g.fresh("NS")
			if g.r.Intn(2) == 0 {
				g.line("%s := %s[0:]", v.name, a.name)
			} else {
				g.line("%s := append(%s[:1], 7)", v.name, a.name)
			}
			g.probe(v, false)
		}
	case 10:
		if a, ok := g.pick(k); ok {
			v := g.fresh(k)
			f := map[string]string{"NM": "m", "NC": "c", "NS": "s"}[k]
			g.line("gBox.%s = %s", f, a.name)
			g.line("%s := gBox.%s", v.name, f)
			g.probe(v, false)
		}
	case 11:
		if a, ok := g.pick("NM"); ok {
			g.line("%s[\"k\"]++", a.name)
		}
		if a, ok := g.pick("NC"); ok {
			g.line("%s <- 1", a.name)
			g.line("<-%s", a.name)
		}
	}
}

// RenderBareProgram renders a bare program (see above). It returns main.go and go.mod, and the set of birth probes.
func RenderBareProgram(r HeapRand, nFuncs, nSteps int) (map[string]string, map[int]bool) {
	var sb strings.Builder
	sb.WriteString(`package main

// NM, NC and NS are the only map, channel and slice types of the program.
type NM map[string]int
type NC chan int
type NS []int

// Box holds one of each.
type Box struct {
	m NM
	c NC
	s NS
}

var gNM NM
var gNC NC
var gNS NS
var gBox Box

// bits is the input; the native runs set it at link time (-ldflags -X main.bits=...), the source never changes.
var bits = "000000"

func cond(i int) bool { return i < len(bits) && bits[i] == '1' }

func idNM(x NM) NM { return x }
func idNC(x NC) NC { return x }
func idNS(x NS) NS { return x }

func loadNM() NM { return gNM }
func loadNC() NC { return gNC }
func loadNS() NS { return gNS }

`)
	next := 1
	keep := 0
	var body strings.Builder
	births := map[int]bool{}
	for _, k := range bareKinds {
		fmt.Fprintf(&sb, "func (x %s) touch() {\n\tprintln(\"P\", %d, \"%s\", x)\n}\n\n", k, next, k)
		next++
	}
	for f := 0; f < nFuncs; f++ {
		g := &bareGen{r: r, nextID: &next, births: births, keep: &keep, fn: f}
		for _, k := range bareKinds {
			g.alloc(k)
		}
		for s := 0; s < nSteps; s++ {
			g.step()
		}
		fmt.Fprintf(&body, "func script%d() {\n%s", f, g.sb.String())
		for _, v := range g.vars {
			fmt.Fprintf(&body, "\t_ = %s\n", v.name)
		}
		body.WriteString("}\n\n")
	}
	for _, k := range bareKinds {
		fmt.Fprintf(&sb, "var keep%s [%d]%s\n", k, keep+1, k)
	}
	sb.WriteString("\n")
	sb.WriteString(body.String())
	sb.WriteString("func main() {\n")
	for f := 0; f < nFuncs; f++ {
		fmt.Fprintf(&sb, "\tscript%d()\n", f)
	}
	sb.WriteString("}\n")
	return map[string]string{"main.go": sb.String(), "go.mod": "module vprog\n\ngo 1.22\n"}, births
}

// ParseBareEvents parses the println output of a bare program: `P <id> <type> <address>`.
func ParseBareEvents(out string) []Event {
	var evs []Event
	for _, ln := range strings.Split(out, "\n") {
		f := strings.Fields(ln)
		if len(f) != 4 || f[0] != "P" {
			continue
		}
		var id int
		if _, err := fmt.Sscanf(f[1], "%d", &id); err != nil {
			continue
		}
		addr := f[3]
		if i := strings.Index(addr, "]"); i >= 0 { // slices print as [len/cap]0xaddr
			addr = addr[i+1:]
		}
		addr = strings.TrimPrefix(addr, "0x")
		evs = append(evs, Event{Kind: "P", ID: id, Addr: addr, Type: f[2]})
	}
	return evs
}
