package gen

import (
	"fmt"
	"strings"
)

// GoForm is a way of launching a goroutine; RecForm is what the entry function does about panics.
type GoForm struct {
	Name  string
	Decls string // uses $E for the entry body, $u suffix, $n case number
	Body  string // statements in the case function; the go statement carries the marker comment // go:$n
	Lib   string
}

// RecForm is the code placed at the top of the entry function.
type RecForm struct {
	Name string
	Code string // statements, uses $u
	Decl string // extra top-level declarations
	// HasRecoveringDefer: the entry function itself defers a function that (syntactically) calls recover.
	HasRecoveringDefer bool
	// MustDie / MustSurvive: expected native outcome when the goroutine panics (validates the tags).
	MustDie, MustSurvive bool
}

// GoForms lists the goroutine launch forms.
var GoForms = []GoForm{
	{Name: "named", Decls: "func ent$u() { // entry:$n\n$E}", Body: "go ent$u() // go:$n"},
	{Name: "closure", Body: "go func() { // entry:$n go:$n\n$E}()"},
	{Name: "closurevar", Body: "f$u := func() { // entry:$n\n$E}\ngo f$u() // go:$n"},
	{Name: "closurearg", Body: "go func(x int) { // entry:$n go:$n\n\t_ = x\n$E}(1)"},
	{Name: "method", Decls: "type T$u struct{ n int }\n\nfunc (t T$u) run() { // entry:$n\n$E}", Body: "go T$u{}.run() // go:$n"},
	{Name: "methodptr", Decls: "type T$u struct{ n int }\n\nfunc (t *T$u) run() { // entry:$n\n$E}", Body: "t$u := &T$u{}\ngo t$u.run() // go:$n"},
	{Name: "boundmethod", Decls: "type T$u struct{ n int }\n\nfunc (t *T$u) run() { // entry:$n\n$E}", Body: "t$u := &T$u{}\nf$u := t$u.run\ngo f$u() // go:$n"},
	{Name: "methodexpr", Decls: "type T$u struct{ n int }\n\nfunc (t T$u) run() { // entry:$n\n$E}", Body: "go T$u.run(T$u{}) // go:$n"},
	{Name: "methodexprvar", Decls: "type T$u struct{ n int }\n\nfunc (t T$u) run() { // entry:$n\n$E}", Body: "f$u := T$u.run\ngo f$u(T$u{}) // go:$n"},
	{Name: "generic", Decls: "func gent$u[X any](x X) { // entry:$n\n\t_ = x\n$E}", Body: "go gent$u(1) // go:$n"},
	{Name: "funcreturned", Decls: "func ent$u() { // entry:$n\n$E}\n\nfunc pick$u() func() { return ent$u }", Body: "f$u := pick$u()\ngo f$u() // go:$n"},
	{Name: "funcparam", Decls: "func ent$u() { // entry:$n\n$E}\n\nfunc spawn$u(f func()) {\n\tgo f() // go:$n\n}", Body: "spawn$u(ent$u)"},
	{Name: "funcfield", Decls: "type H$u struct{ f func() }\n\nfunc ent$u() { // entry:$n\n$E}", Body: "h$u := &H$u{f: ent$u}\ngo h$u.f() // go:$n"},
	{Name: "funcmap", Decls: "func ent$u() { // entry:$n\n$E}", Body: "m$u := map[string]func(){\"a\": ent$u}\ngo m$u[\"a\"]() // go:$n"},
	{Name: "funcglobal", Decls: "func ent$u() { // entry:$n\n$E}\n\nvar gf$u func()\n\nfunc setgf$u() { gf$u = ent$u }", Body: "setgf$u()\ngo gf$u() // go:$n"},
	{Name: "invoke", Decls: "type I$u interface{ run() }\ntype T$u struct{ n int }\n\nfunc (t T$u) run() { // entry:$n\n$E}", Body: "var i$u I$u = T$u{}\ngo i$u.run() // go:$n"},
	{Name: "invokeptr", Decls: "type I$u interface{ run() }\ntype T$u struct{ n int }\n\nfunc (t *T$u) run() { // entry:$n\n$E}\n\nfunc mk$u() I$u { return &T$u{} }", Body: "go mk$u().run() // go:$n"},
	{Name: "nested", Body: "rt.WG.Add(1)\ngo func() {\n\tdefer rt.GDone()\n\tdefer func() { _ = recover() }()\n\tgo func() { // entry:$n go:$n\n$E\t}()\n}()"},
	{Name: "loop", Decls: "func ent$u() { // entry:$n\n$E}", Body: "for i$u := 0; i$u < 1; i$u++ {\n\tgo ent$u() // go:$n\n}"},
	{Name: "lib", Lib: "// Ent$u is a goroutine entry.\nfunc Ent$u() { // entry:$n\n$E}", Body: "go lib.Ent$u() // go:$n"},
	{Name: "libspawn", Lib: "func ent$u() { // entry:$n\n$E}\n\n// Spawn$u launches.\nfunc Spawn$u() {\n\trt.WG.Add(1)\n\tgo ent$u() // go:$n\n}", Body: "lib.Spawn$u()\nrt.WG.Add(-1)"},
}

// RecForms lists the panic-handling forms of the entry function.
var RecForms = []RecForm{
	{Name: "none", Code: "", MustDie: true},
	{Name: "deferclosure", Code: "defer func() { _ = recover() }()", HasRecoveringDefer: true, MustSurvive: true},
	{Name: "defernamed", Code: "defer recov$u()", Decl: "func recov$u() { _ = recover() }", HasRecoveringDefer: true, MustSurvive: true},
	{Name: "defermethod", Code: "defer (&R$u{}).rec()", Decl: "type R$u struct{ n int }\n\nfunc (r *R$u) rec() { _ = recover() }", HasRecoveringDefer: true, MustSurvive: true},
	{Name: "deferbuiltin", Code: "defer recover()", MustDie: true},
	{Name: "nestedcall", Code: "defer func() { help$u() }()", Decl: "func help$u() { _ = recover() }", MustDie: true},
	{Name: "conditional", Code: "defer func() {\n\t\tif rt.Cond(1) {\n\t\t\t_ = recover()\n\t\t}\n\t}()", HasRecoveringDefer: true},
	{Name: "plaincall", Code: "_ = recover()", MustDie: true},
	{Name: "calleedefers", Code: "setup$u()", Decl: "func setup$u() {\n\tdefer func() { _ = recover() }()\n}", MustDie: true},
	{Name: "repanic", Code: "defer func() {\n\t\tif r := recover(); r != nil {\n\t\t\tpanic(r)\n\t\t}\n\t}()", HasRecoveringDefer: true},
	{Name: "twodefers", Code: "defer func() {}()\n\tdefer func() { _ = recover() }()", HasRecoveringDefer: true, MustSurvive: true},
	{Name: "deferother", Code: "defer func() { rt.Nop() }()", MustDie: true},
	{Name: "nestedliteral", Code: "func() {\n\t\tdefer func() { _ = recover() }()\n\t\trt.Nop()\n\t}()", MustDie: true},
	{Name: "nestedliteralvar", Code: "guard$u := func(step func()) {\n\t\tdefer func() { _ = recover() }()\n\t\tstep()\n\t}\n\tguard$u(rt.Nop)", MustDie: true},
	{Name: "deferinloop", Code: "for i$u := 0; i$u < 1; i$u++ {\n\t\tfunc() {\n\t\t\tdefer func() { _ = recover() }()\n\t\t}()\n\t}", MustDie: true},
}

// PanicCase is one (go form, recover form) combination.
type PanicCase struct {
	N   int
	Go  int
	Rec int
}

// RenderPanicProgram renders the cases into a program.
func RenderPanicProgram(cases []PanicCase) map[string]string {
	var decls, lib, body strings.Builder
	needLib := false
	for _, c := range cases {
		gf, rf := GoForms[c.Go], RecForms[c.Rec]
		u := fmt.Sprintf("_%d", c.N)
		var e strings.Builder
		fmt.Fprintf(&e, "\trt.Enter(%d)\n\tdefer rt.GDone()\n", c.N)
		if rf.Code != "" {
			e.WriteString("\t" + strings.ReplaceAll(rf.Code, "$u", u) + "\n")
		}
		fmt.Fprintf(&e, "\tif rt.Sel(%d) {\n\t\tpanic(\"boom%d\")\n\t}\n", c.N, c.N)
		rep := strings.NewReplacer("$E", e.String(), "$u", u, "$n", fmt.Sprint(c.N))
		isLib := gf.Lib != ""
		if gf.Decls != "" {
			decls.WriteString(rep.Replace(gf.Decls) + "\n\n")
		}
		if rf.Decl != "" {
			if isLib {
				lib.WriteString(rep.Replace(rf.Decl) + "\n\n")
			} else {
				decls.WriteString(rep.Replace(rf.Decl) + "\n\n")
			}
		}
		if isLib {
			needLib = true
			lib.WriteString(rep.Replace(gf.Lib) + "\n\n")
		}
		fmt.Fprintf(&body, "// case %d: go=%s rec=%s\nfunc case%d() {\n\trt.WG.Add(1)\n", c.N, gf.Name, rf.Name, c.N)
		for _, l := range strings.Split(rep.Replace(gf.Body), "\n") {
			body.WriteString("\t" + l + "\n")
		}
		body.WriteString("\trt.WG.Wait()\n}\n\n")
	}
	var m strings.Builder
	m.WriteString("package main\n\nimport (\n")
	if needLib {
		m.WriteString("\t\"vprog/lib\"\n")
	}
	m.WriteString("\t\"vprog/rt\"\n)\n\n")
	m.WriteString(decls.String())
	m.WriteString(body.String())
	m.WriteString("func main() {\n\tdefer rt.Done()\n")
	for _, c := range cases {
		fmt.Fprintf(&m, "\tcase%d()\n", c.N)
	}
	m.WriteString("}\n")
	files := map[string]string{"main.go": m.String()}
	if needLib {
		files["lib/lib.go"] = "// Package lib holds cross-package goroutine entries.\npackage lib\n\nimport \"vprog/rt\"\n\n" + lib.String()
	}
	return files
}
