package gen

import (
	"fmt"
	"strings"
)

// CNode is one statement of a generated function body (C16 workload).
type CNode struct {
	Kind string // defer ret panic break continue if for switch dowhile fwd
	Kids [][]CNode
}

func (n CNode) size() int {
	s := 1
	for _, k := range n.Kids {
		for _, c := range k {
			s += c.size()
		}
	}
	return s
}

// Shape returns a compact textual form of a body, used as case identity.
func Shape(b []CNode) string {
	var sb strings.Builder
	for i, n := range b {
		if i > 0 {
			sb.WriteByte(' ')
		}
		switch n.Kind {
		case "defer":
			sb.WriteString("D")
		case "ret":
			sb.WriteString("R")
		case "panic":
			sb.WriteString("P")
		case "break":
			sb.WriteString("B")
		case "continue":
			sb.WriteString("C")
		default:
			sb.WriteString(n.Kind)
			for _, k := range n.Kids {
				sb.WriteString("{" + Shape(k) + "}")
			}
		}
	}
	return sb.String()
}

func isTerminator(k string) bool {
	return k == "ret" || k == "panic" || k == "break" || k == "continue"
}

type cfgEnum struct {
	kinds map[string]bool
	memoB map[[2]int][][]CNode
}

// EnumBodies enumerates every body with exactly n statement nodes over the given statement kinds.
// A terminator (return, panic, break, continue) is always last in its block.
func EnumBodies(n int, kinds []string) [][]CNode {
	e := &cfgEnum{kinds: map[string]bool{}, memoB: map[[2]int][][]CNode{}}
	for _, k := range kinds {
		e.kinds[k] = true
	}
	return e.blocks(n, 0)
}

func (e *cfgEnum) blocks(n int, inLoop int) [][]CNode {
	if n == 0 {
		return [][]CNode{{}}
	}
	key := [2]int{n, inLoop}
	if r, ok := e.memoB[key]; ok {
		return r
	}
	var out [][]CNode
	for k := 1; k <= n; k++ {
		for _, s := range e.stmts(k, inLoop) {
			if isTerminator(s.Kind) {
				if k == n {
					out = append(out, []CNode{s})
				}
				continue
			}
			for _, rest := range e.blocks(n-k, inLoop) {
				b := append([]CNode{s}, rest...)
				out = append(out, b)
			}
		}
	}
	e.memoB[key] = out
	return out
}

func (e *cfgEnum) stmts(k int, inLoop int) []CNode {
	var out []CNode
	if k == 1 {
		for _, kind := range []string{"defer", "ret", "panic"} {
			if e.kinds[kind] {
				out = append(out, CNode{Kind: kind})
			}
		}
		if inLoop == 1 {
			for _, kind := range []string{"break", "continue"} {
				if e.kinds[kind] {
					out = append(out, CNode{Kind: kind})
				}
			}
		}
	}
	rest := k - 1
	if e.kinds["if"] {
		// if with then-block of size a >= 1 and else-block of size rest-a (possibly empty)
		for a := 1; a <= rest; a++ {
			for _, A := range e.blocks(a, inLoop) {
				for _, B := range e.blocks(rest-a, inLoop) {
					out = append(out, CNode{Kind: "if", Kids: [][]CNode{A, B}})
				}
			}
		}
	}
	if e.kinds["for"] && rest >= 1 {
		for _, A := range e.blocks(rest, 1) {
			out = append(out, CNode{Kind: "for", Kids: [][]CNode{A}})
		}
	}
	if e.kinds["dowhile"] && rest >= 1 {
		for _, A := range e.blocks(rest, 0) {
			out = append(out, CNode{Kind: "dowhile", Kids: [][]CNode{A}})
		}
	}
	if e.kinds["fwd"] && rest >= 1 {
		for _, A := range e.blocks(rest, 0) {
			out = append(out, CNode{Kind: "fwd", Kids: [][]CNode{A}})
		}
	}
	if e.kinds["switch"] && rest >= 2 {
		for a := 1; a < rest; a++ {
			for _, A := range e.blocks(a, inLoop) {
				for _, B := range e.blocks(rest-a, inLoop) {
					out = append(out, CNode{Kind: "switch", Kids: [][]CNode{A, B}})
				}
			}
		}
	}
	return out
}

// CountDefers counts defer statements of a body.
func CountDefers(b []CNode) int {
	c := 0
	for _, n := range b {
		if n.Kind == "defer" {
			c++
		}
		for _, k := range n.Kids {
			c += CountDefers(k)
		}
	}
	return c
}

type cfgRender struct {
	sb     strings.Builder
	nDefer int
	nExit  int
	nLabel int
	fn     int
}

func (r *cfgRender) line(ind int, s string) {
	r.sb.WriteString(strings.Repeat("\t", ind))
	r.sb.WriteString(s)
	r.sb.WriteByte('\n')
}

func (r *cfgRender) block(b []CNode, ind int) {
	for _, n := range b {
		switch n.Kind {
		case "defer":
			r.nDefer++
			r.line(ind, fmt.Sprintf("defer rt.DRun(rt.DPush(%d))", r.nDefer))
		case "ret":
			r.nExit++
			r.line(ind, fmt.Sprintf("rt.Exit(%d)", r.nExit))
			r.line(ind, "return")
		case "panic":
			r.line(ind, "panic(\"p\")")
		case "break":
			r.line(ind, "break")
		case "continue":
			r.line(ind, "continue")
		case "if":
			r.line(ind, "if rt.Next() {")
			r.block(n.Kids[0], ind+1)
			if len(n.Kids[1]) > 0 {
				r.line(ind, "} else {")
				r.block(n.Kids[1], ind+1)
			}
			r.line(ind, "}")
		case "for":
			r.line(ind, "for rt.Next() {")
			r.block(n.Kids[0], ind+1)
			r.line(ind, "}")
		case "dowhile":
			r.nLabel++
			l := fmt.Sprintf("L%d_%d", r.fn, r.nLabel)
			r.line(ind, l+":")
			r.line(ind, "rt.Nop()")
			r.block(n.Kids[0], ind)
			r.line(ind, "if rt.Next() {")
			r.line(ind+1, "goto "+l)
			r.line(ind, "}")
		case "fwd":
			r.nLabel++
			l := fmt.Sprintf("L%d_%d", r.fn, r.nLabel)
			r.line(ind, "if rt.Next() {")
			r.line(ind+1, "goto "+l)
			r.line(ind, "}")
			r.line(ind, "{")
			r.block(n.Kids[0], ind+1)
			r.line(ind, "}")
			r.line(ind, l+":")
			r.line(ind, "rt.Nop()")
		case "switch":
			r.line(ind, "switch {")
			r.line(ind, "case rt.Next():")
			r.block(n.Kids[0], ind+1)
			r.line(ind, "case rt.Next():")
			r.block(n.Kids[1], ind+1)
			r.line(ind, "}")
		}
	}
}

// endsInTerminator reports whether control cannot fall off the end of the block.
func endsInTerminator(b []CNode) bool {
	if len(b) == 0 {
		return false
	}
	last := b[len(b)-1]
	if last.Kind == "ret" || last.Kind == "panic" {
		return true
	}
	if last.Kind == "if" {
		return endsInTerminator(last.Kids[0]) && endsInTerminator(last.Kids[1])
	}
	return false
}

// RenderCFGProgram renders the functions (one per body) and the driver main.
func RenderCFGProgram(bodies [][]CNode, tapeLen int) map[string]string {
	var sb strings.Builder
	sb.WriteString("package main\n\nimport \"vprog/rt\"\n\n")
	for i, b := range bodies {
		r := &cfgRender{fn: i}
		r.block(b, 1)
		fmt.Fprintf(&sb, "// shape: %s\nfunc f%d() {\n", Shape(b), i)
		sb.WriteString(r.sb.String())
		if !endsInTerminator(b) {
			fmt.Fprintf(&sb, "\trt.Exit(%d)\n", 0)
		}
		sb.WriteString("}\n\n")
	}
	sb.WriteString("func main() {\n\trt.DriveAll([]func(){\n")
	for i := range bodies {
		fmt.Fprintf(&sb, "\t\tf%d,\n", i)
	}
	fmt.Fprintf(&sb, "\t}, %d)\n}\n", tapeLen)
	return map[string]string{"main.go": sb.String()}
}
