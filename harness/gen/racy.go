package gen

import (
	"fmt"
	"strings"
)

// Share is a way of making an object reachable from another goroutine.
type Share struct {
	Name  string
	Decls string // $u suffix
	// Setup shares object o$u and starts the goroutine; the goroutine must run $G (the goroutine-side access on
	// variable g$u of type *Obj) and then signal done$u.
	Setup string
}

// Access is a memory access on an *Obj held in variable $v (one access per source line).
type Access struct {
	Name string
	Code string
}

// Shares lists the sharing mechanisms (C14 workload).
var Shares = []Share{
	{Name: "goarg", Decls: "func worker$u(g$u *Obj, done chan bool) {\n$G\tdone <- true\n}", Setup: "go worker$u(o$u, done$u)"},
	{Name: "closure", Setup: "go func() {\n\tg$u := o$u\n$G\tdone$u <- true\n}()"},
	{Name: "closuredirect", Setup: "go func(g$u *Obj) {\n$G\tdone$u <- true\n}(o$u)"},
	{Name: "global", Decls: "var glob$u *Obj\n\nfunc workerG$u(done chan bool) {\n\tg$u := glob$u\n$G\tdone <- true\n}", Setup: "glob$u = o$u\ngo workerG$u(done$u)"},
	{Name: "channel", Decls: "func workerC$u(c chan *Obj, done chan bool) {\n\tg$u := <-c\n$G\tdone <- true\n}", Setup: "ch$u := make(chan *Obj, 1)\ngo workerC$u(ch$u, done$u)\nch$u <- o$u"},
	{Name: "holderfield", Decls: "type Holder$u struct{ o *Obj }\n\nfunc workerH$u(h *Holder$u, done chan bool) {\n\tg$u := h.o\n$G\tdone <- true\n}", Setup: "h$u := &Holder$u{o: o$u}\ngo workerH$u(h$u, done$u)"},
	{Name: "iface", Decls: "func workerI$u(i any, done chan bool) {\n\tg$u := i.(*Obj)\n$G\tdone <- true\n}", Setup: "var i$u any = o$u\ngo workerI$u(i$u, done$u)"},
	{Name: "sliceelem", Decls: "func workerL$u(l []*Obj, done chan bool) {\n\tg$u := l[0]\n$G\tdone <- true\n}", Setup: "l$u := []*Obj{o$u}\ngo workerL$u(l$u, done$u)"},
	{Name: "mapelem", Decls: "func workerM$u(m map[string]*Obj, done chan bool) {\n\tg$u := m[\"k\"]\n$G\tdone <- true\n}", Setup: "m$u := map[string]*Obj{\"k\": o$u}\ngo workerM$u(m$u, done$u)"},
	{Name: "calleepublish", Decls: "var pub$u *Obj\n\nfunc publish$u(o *Obj) { pub$u = o }\n\nfunc workerP$u(done chan bool) {\n\tg$u := pub$u\n$G\tdone <- true\n}", Setup: "publish$u(o$u)\ngo workerP$u(done$u)"},
	{Name: "deferpublish", Decls: "var pub$u *Obj\n\nfunc publish$u(o *Obj) { pub$u = o }\n\nfunc deferred$u(o *Obj) {\n\tdefer publish$u(o)\n}\n\nfunc workerP$u(done chan bool) {\n\tg$u := pub$u\n$G\tdone <- true\n}", Setup: "deferred$u(o$u)\ngo workerP$u(done$u)"},
	{Name: "method", Decls: "type W$u struct{ o *Obj }\n\nfunc (w *W$u) run(done chan bool) {\n\tg$u := w.o\n$G\tdone <- true\n}", Setup: "w$u := &W$u{o: o$u}\ngo w$u.run(done$u)"},
	{Name: "ifacemethod", Decls: "type R$u interface{ run(done chan bool) }\ntype W$u struct{ o *Obj }\n\nfunc (w *W$u) run(done chan bool) {\n\tg$u := w.o\n$G\tdone <- true\n}", Setup: "var r$u R$u = &W$u{o: o$u}\ngo r$u.run(done$u)"},
	{Name: "nested", Decls: "func inner$u(g$u *Obj) {\n$G}\n\nfunc outer$u(o *Obj, done chan bool) {\n\tinner$u(o)\n\tdone <- true\n}", Setup: "go outer$u(o$u, done$u)"},
	{Name: "structcopy", Decls: "type Box$u struct{ o *Obj }\n\nfunc workerB$u(b Box$u, done chan bool) {\n\tg$u := b.o\n$G\tdone <- true\n}", Setup: "b$u := Box$u{o: o$u}\ngo workerB$u(b$u, done$u)"},
	{Name: "calleefieldaddr", Decls: "type Mid$u struct{ inner Obj }\ntype Outer$u struct{ mid *Mid$u }\n\nfunc workerF$u(g$u *Obj, done chan bool) {\n$G\tdone <- true\n}\n\nfunc leakInner$u(o *Outer$u, done chan bool) {\n\tm := o.mid\n\tgo workerF$u(&m.inner, done)\n}",
		Setup: "out$u := &Outer$u{mid: &Mid$u{inner: *o$u}}\nleakInner$u(out$u, done$u)\no$u = &out$u.mid.inner"},
	{Name: "selectrecv", Setup: "in$u := make(chan *Obj, 1)\noutc$u := make(chan int)\ngo func(g$u *Obj) {\n\tin$u <- g$u\n\ttime.Sleep(time.Millisecond)\n$G\tdone$u <- true\n}(o$u)\nvar n$u *Obj\nselect {\ncase outc$u <- 1:\ncase n$u = <-in$u:\n}\no$u = n$u"},
	{Name: "producerlink", Decls: "func fill$u(g$u *Obj, done chan bool) {\n$G\tdone <- true\n}\n\nfunc producer$u(head *Obj, ready chan bool, done chan bool) {\n\tx := 1\n\tn := &Obj{p: &x, m: map[string]int{\"k\": 1}, s: make([]int, 2, 8), n: &Obj{}}\n\thead.n = n\n\tready <- true\n\ttime.Sleep(time.Millisecond)\n\tfill$u(n, done)\n}",
		Setup: "ready$u := make(chan bool)\ngo producer$u(o$u, ready$u, done$u)\n<-ready$u\no$u = o$u.n"},
	{Name: "closurefield", Decls: "type T$u struct{ f func() }", Setup: "t$u := &T$u{}\nt$u.f = func() {\n\tg$u := o$u\n$G\tdone$u <- true\n}\ngo t$u.f()"},
}

// Accesses lists the memory accesses.
var Accesses = []Access{
	{Name: "fieldstore", Code: "$v.a = 7"},
	{Name: "fieldload", Code: "useInt($v.a)"},
	{Name: "derefstore", Code: "*$v.p = 8"},
	{Name: "derefload", Code: "useInt(*$v.p)"},
	{Name: "mapupdate", Code: "$v.m[\"k\"] = 9"},
	{Name: "maplookup", Code: "useInt($v.m[\"k\"])"},
	{Name: "mapdelete", Code: "delete($v.m, \"z\")"},
	{Name: "slicestore", Code: "$v.s[0] = 10"},
	{Name: "sliceload", Code: "useInt($v.s[0])"},
	{Name: "copyinto", Code: "copy($v.s, src2)"},
	{Name: "appendfield", Code: "$v.s = append($v.s, 11)"},
	{Name: "ifacestore", Code: "$v.i = 12"},
	{Name: "nestedstore", Code: "$v.n.a = 13"},
	{Name: "rangemap", Code: "for k := range $v.m { useStr(k) }"},
}

// RacyCase is one (share, goroutine access, main access) scenario.
type RacyCase struct {
	N                 int
	Share, GAcc, MAcc int
}

// RenderRacyProgram renders the scenarios.
func RenderRacyProgram(cases []RacyCase) map[string]string {
	var decls, body strings.Builder
	for _, c := range cases {
		u := fmt.Sprintf("_%d", c.N)
		sh := Shares[c.Share]
		gcode := "\t" + strings.ReplaceAll(Accesses[c.GAcc].Code, "$v", "g"+u) + " // access:g:" + fmt.Sprint(c.N) + "\n"
		rep := func(s string) string {
			s = strings.ReplaceAll(s, "$G", gcode)
			return strings.ReplaceAll(s, "$u", u)
		}
		if sh.Decls != "" {
			decls.WriteString(rep(sh.Decls) + "\n\n")
		}
		fmt.Fprintf(&body, "// scenario %d: share=%s goroutine=%s main=%s\nfunc scen%d() {\n", c.N, sh.Name, Accesses[c.GAcc].Name, Accesses[c.MAcc].Name, c.N)
		fmt.Fprintf(&body, "\tx%s := 1\n\to%s := &Obj{p: &x%s, m: map[string]int{\"k\": 1}, s: make([]int, 2, 8), n: &Obj{}}\n\tdone%s := make(chan bool, 1)\n", u, u, u, u)
		for _, l := range strings.Split(rep(sh.Setup), "\n") {
			body.WriteString("\t" + l + "\n")
		}
		body.WriteString("\ttime.Sleep(3 * time.Millisecond)\n")
		fmt.Fprintf(&body, "\t%s // access:m:%d\n", strings.ReplaceAll(Accesses[c.MAcc].Code, "$v", "o"+u), c.N)
		fmt.Fprintf(&body, "\t<-done%s\n}\n\n", u)
	}
	var m strings.Builder
	m.WriteString("package main\n\nimport (\n\t\"time\"\n\n\t\"vprog/rt\"\n)\n\n")
	m.WriteString("// Obj is the object shared between goroutines.\ntype Obj struct {\n\ta int\n\tp *int\n\tm map[string]int\n\ts []int\n\ti any\n\tn *Obj\n}\n\nvar src2 = []int{1, 2}\n\nfunc useInt(int)    {}\nfunc useStr(string) {}\n\n")
	m.WriteString(decls.String())
	m.WriteString(body.String())
	m.WriteString("func main() {\n\tdefer rt.Done()\n")
	for _, c := range cases {
		fmt.Fprintf(&m, "\tscen%d()\n", c.N)
	}
	m.WriteString("}\n")
	return map[string]string{"main.go": m.String()}
}
