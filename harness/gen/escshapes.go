package gen

import (
	"fmt"
	"strings"
)

// RenderEscapeShapes renders a program for the escape-lattice checks: (1) every ordered pair of small heap operations
// in the two arms of a branch (so that the graphs that meet at the join differ in edges on one side and in statuses on
// the other), also inside a loop; (2) small mutually recursive clusters in which one function calls two others from
// sibling blocks and they call it back with their arguments swapped (so that the whole-program fixpoint needs several
// rounds over one call site). Each test function publishes one object at the end and reads through the other ones.
func RenderEscapeShapes() map[string]string {
	var sb strings.Builder
	sb.WriteString(`package main

import "vprog/rt"

// N is a list node.
type N struct {
	next *N
	val  string
}

var gN *N

func use(n *N) {
	if n != nil {
		rt.Nop2(n.val)
	}
}

func helperLink(x, y *N) { x.next = y }

func helperLeak(x *N) { gN = x }

`)
	ops := []struct{ name, code string }{
		{"leakA", "gN = a"},
		{"leakB", "gN = b"},
		{"linkAB", "a.next = b"},
		{"linkBA", "b.next = a"},
		{"linkBC", "b.next = c"},
		{"shareA", "go use(a)"},
		{"callLinkAB", "helperLink(a, b)"},
		{"callLeakA", "helperLeak(a)"},
		{"nop", "_ = a"},
	}
	var calls []string
	n := 0
	for _, o1 := range ops {
		for _, o2 := range ops {
			if o1.name == o2.name {
				continue
			}
			n++
			fn := fmt.Sprintf("join_%s_%s", o1.name, o2.name)
			fmt.Fprintf(&sb, "func %s(s string) {\n\ta, b, c := &N{val: s}, &N{}, &N{}\n\tif rt.Cond(%d) {\n\t\t%s\n\t} else {\n\t\t%s\n\t}\n\tb.val = s\n\tc.val = s\n\tuse(a)\n\tuse(b)\n\tuse(c)\n}\n\n", fn, n%6, o1.code, o2.code)
			calls = append(calls, fn+"(x)")
			if n%3 == 0 {
				fn2 := fmt.Sprintf("loop_%s_%s", o1.name, o2.name)
				fmt.Fprintf(&sb, "func %s(s string) {\n\ta, b, c := &N{val: s}, &N{}, &N{}\n\tfor i := 0; i < 3; i++ {\n\t\tif i%%2 == 0 {\n\t\t\t%s\n\t\t} else {\n\t\t\t%s\n\t\t}\n\t\tb.val = s\n\t}\n\tc.val = s\n\tuse(a)\n\tuse(b)\n\tuse(c)\n}\n\n", fn2, o1.code, o2.code)
				calls = append(calls, fn2+"(x)")
			}
		}
	}
	// mutually recursive clusters
	bodies := []struct{ name, first, second string }{
		{"link", "x.next = y", "x.next = y"},
		{"linkrev", "x.next = y", "y.next = x"},
		{"leaklink", "gN = x", "x.next = y"},
		{"linkval", "x.next = y\n\tx.val = y.val", "y.next = x"},
	}
	for k, bd := range bodies {
		fmt.Fprintf(&sb, `func relink%[1]d(a, b, c, d *N, n int) {
	if n <= 0 {
		return
	}
	if a != nil {
		first%[1]d(a, b, n)
	} else {
		second%[1]d(c, d, n)
	}
}

func first%[1]d(x, y *N, n int) {
	if x == nil {
		return
	}
	%[2]s
	relink%[1]d(y, x, nil, nil, n-1)
}

func second%[1]d(x, y *N, n int) {
	if x == nil {
		return
	}
	%[3]s
	relink%[1]d(nil, nil, y, x, n-1)
}

func cluster%[1]dFirst(s string) {
	a, b := &N{val: s}, &N{}
	relink%[1]d(a, b, nil, nil, 2)
	gN = b
	a.val = s
	use(a)
}

func cluster%[1]dSecond(s string) {
	c, d := &N{val: s}, &N{}
	relink%[1]d(nil, nil, c, d, 2)
	gN = d
	c.val = s
	use(c)
}

`, k, bd.first, bd.second)
		calls = append(calls, fmt.Sprintf("cluster%dFirst(x)", k), fmt.Sprintf("cluster%dSecond(x)", k))
	}
	// three-function ring with a shared callee
	sb.WriteString(`func ringA(x, y *N, n int) {
	if n <= 0 {
		return
	}
	if x.val == "" {
		ringB(y, x, n-1)
	} else {
		ringC(x, y, n-1)
	}
}

func ringB(x, y *N, n int) {
	x.next = y
	ringA(y, x, n)
}

func ringC(x, y *N, n int) {
	y.next = x
	ringA(x, y, n)
}

func ringTest(s string) {
	a, b := &N{val: s}, &N{}
	ringA(a, b, 3)
	gN = a
	b.val = s
	use(b)
}

`)
	calls = append(calls, "ringTest(x)")
	sb.WriteString("func main() {\n\tdefer rt.Done()\n\tx := rt.Source(1)\n")
	for _, c := range calls {
		fmt.Fprintf(&sb, "\t%s\n", c)
	}
	sb.WriteString("\trt.Sink(1, x)\n}\n")
	return map[string]string{"main.go": sb.String()}
}
