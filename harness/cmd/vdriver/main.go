// vdriver is the single driver binary of the verification harness: `vdriver <property-id> <tier>` runs a
// check as supervisor; `vdriver worker <kind> <job.json>` is the isolated child that calls the analyzer.
package main

import (
	"fmt"
	"os"

	"verif/harness/checks"
)

func main() {
	if len(os.Args) == 2 && os.Args[1] == "corpus" {
		checks.WriteCorpus()
		return
	}
	if len(os.Args) < 3 {
		fmt.Fprintln(os.Stderr, "usage: vdriver <id> <tier> | vdriver worker <kind> <job.json>")
		os.Exit(2)
	}
	if os.Args[1] == "worker" {
		checks.WorkerMain(os.Args[2], os.Args[3])
		return
	}
	if os.Args[1] == "replay" {
		checks.Replay(os.Args[2])
		return
	}
	f := checks.Registry[os.Args[1]]
	if f == nil {
		fmt.Fprintf(os.Stderr, "unknown check %s\n", os.Args[1])
		os.Exit(2)
	}
	f(os.Args[2])
}
