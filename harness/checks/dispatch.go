package checks

import (
	"fmt"
	"os"
	"path/filepath"
	"sort"
	"strings"
	"time"

	"github.com/awslabs/ar-go-tools/analysis/config"
	"github.com/awslabs/ar-go-tools/analysis/dataflow"
	"github.com/awslabs/ar-go-tools/analysis/reachability"
	"golang.org/x/tools/go/callgraph"
	"golang.org/x/tools/go/ssa"
	"golang.org/x/tools/go/ssa/ssautil"

	"verif/harness/ana"
	"verif/harness/core"
	"verif/harness/gen"
)

// DynCall is one run-time call event (from the native Enter monitor).
type DynCall struct {
	Callee int    `json:"callee"`
	Caller int    `json:"caller"`
	Line   int    `json:"line"`
	Kind   string `json:"kind"`
}

// DispatchJob asks the worker to compare a program's call graph / reachability with run-time call events.
type DispatchJob struct {
	Dir   string    `json:"dir"`
	Calls []DynCall `json:"calls"`
	Out   string    `json:"out"`
}

// DispatchResult is the worker's answer.
type DispatchResult struct {
	// C12
	NotReachableCG []int    `json:"not_reachable_cg"` // executed ids not in ReachableFunctions()
	NoEdge         []string `json:"no_edge"`          // "caller>callee@line kind"
	NoResolve      []string `json:"no_resolve"`
	EdgesChecked   int      `json:"edges_checked"`
	// C18: per root selection ("00" = main+init, "10" = -nomain, "01" = -noinit, "11")
	ReachIDs        map[string][]int `json:"reach_ids"`
	ReachCount      map[string]int   `json:"reach_count"`
	CGNotInReach    []string         `json:"cg_not_in_reach"` // pointer call-graph reachable but not in FindReachable
	CGNotInReachIDs []int            `json:"cg_not_in_reach_ids"`
	// CGNotInReachStatic: missing functions that a function inside FindReachable calls statically (no dynamic
	// dispatch involved): these cannot be explained by interface-assertion imprecision.
	CGNotInReachStatic []string `json:"cg_not_in_reach_static"`
	NotInAll           []string `json:"not_in_all"`   // FindReachable not in AllFunctions
	NotMonotone        []string `json:"not_monotone"` // root-exclusion result not a subset
	AllCount           int      `json:"all_count"`
	CGCount            int      `json:"cg_count"`
	Err                string   `json:"err,omitempty"`
}

func enterID(f *ssa.Function) (int, bool) {
	for _, b := range f.Blocks {
		for _, ins := range b.Instrs {
			if c, ok := ins.(*ssa.Call); ok {
				if cal := c.Call.StaticCallee(); cal != nil && cal.Name() == "Enter" && cal.Pkg != nil && cal.Pkg.Pkg.Name() == "rt" {
					if id := constArg(&c.Call); id >= 0 {
						return id, true
					}
				}
			}
		}
	}
	return 0, false
}

func init() {
	extraWorkers["dispatch"] = func(jobFile string) {
		var job DispatchJob
		if err := core.ReadJSON(jobFile, &job); err != nil {
			fmt.Fprintln(os.Stderr, err)
			os.Exit(2)
		}
		res := &DispatchResult{ReachIDs: map[string][]int{}, ReachCount: map[string]int{}}
		l, err := ana.Load(job.Dir, true)
		if err != nil {
			res.Err = "load: " + err.Error()
			core.WriteJSON(job.Out, res)
			return
		}
		cfg := config.NewDefault()
		cfg.LogLevel = int(config.ErrLevel)
		state, err := dataflow.NewInitializedAnalyzerState(l.Prog, l.Pkgs, config.NewLogGroup(cfg), cfg)
		if err != nil {
			res.Err = "state: " + err.Error()
			core.WriteJSON(job.Out, res)
			return
		}
		all := ssautil.AllFunctions(l.Prog)
		res.AllCount = len(all)
		idFuncs := map[int][]*ssa.Function{}
		funcID := map[*ssa.Function]int{}
		for f := range all {
			if id, ok := enterID(f); ok {
				idFuncs[id] = append(idFuncs[id], f)
				funcID[f] = id
			}
		}
		// Generic instantiations may not be in AllFunctions' key set under every builder mode; also scan call-graph nodes.
		cg := state.PointerAnalysis.CallGraph
		for f := range cg.Nodes {
			if f == nil {
				continue
			}
			if _, ok := funcID[f]; !ok {
				if id, ok := enterID(f); ok {
					idFuncs[id] = append(idFuncs[id], f)
					funcID[f] = id
				}
			}
		}
		lineOf := func(ins ssa.Instruction) int {
			if ins == nil {
				return 0
			}
			return l.Prog.Fset.Position(ins.Pos()).Line
		}
		isWrapper := func(f *ssa.Function) bool { return f != nil && f.Synthetic != "" }
		reachesThroughWrappers := func(start *callgraph.Node, target map[*ssa.Function]bool) bool {
			seen := map[*callgraph.Node]bool{start: true}
			work := []*callgraph.Node{start}
			for len(work) > 0 {
				n := work[len(work)-1]
				work = work[:len(work)-1]
				if target[n.Func] {
					return true
				}
				if n != start && !isWrapper(n.Func) {
					continue
				}
				if n == start && !isWrapper(n.Func) {
					continue
				}
				for _, e := range n.Out {
					if !seen[e.Callee] {
						seen[e.Callee] = true
						work = append(work, e.Callee)
					}
				}
			}
			return false
		}
		reachable := state.ReachableFunctions()
		executed := map[int]bool{}
		seenCall := map[DynCall]bool{}
		for _, dc := range job.Calls {
			executed[dc.Callee] = true
			if seenCall[dc] {
				continue
			}
			seenCall[dc] = true
			target := map[*ssa.Function]bool{}
			for _, f := range idFuncs[dc.Callee] {
				target[f] = true
			}
			if dc.Caller < 0 || (dc.Kind != "call" && dc.Kind != "viaruntime") {
				continue
			}
			res.EdgesChecked++
			okEdge, okResolve := false, dc.Kind != "call"
			for _, cf := range idFuncs[dc.Caller] {
				node := cg.Nodes[cf]
				if node == nil {
					continue
				}
				for _, e := range node.Out {
					if dc.Kind == "call" && (e.Site == nil || lineOf(e.Site) != dc.Line) {
						// a deferred call runs from the function epilogue: the run-time caller line is not the
						// line of the defer statement, so defer sites are matched on (caller, callee) only
						if _, isDefer := e.Site.(*ssa.Defer); !isDefer || e.Site == nil {
							continue
						}
					}
					if target[e.Callee.Func] || reachesThroughWrappers(e.Callee, target) {
						okEdge = true
					}
				}
				if dc.Kind == "call" {
					for _, b := range cf.Blocks {
						for _, ins := range b.Instrs {
							ci, isCall := ins.(ssa.CallInstruction)
							if !isCall {
								continue
							}
							if _, isDefer := ins.(*ssa.Defer); !isDefer && lineOf(ins) != dc.Line {
								continue
							}
							callees, _ := state.ResolveCallee(ci, false)
							for cal := range callees {
								if target[cal] {
									okResolve = true
								} else if n := cg.Nodes[cal]; n != nil && isWrapper(cal) && reachesThroughWrappers(n, target) {
									okResolve = true
								}
							}
						}
					}
				}
			}
			desc := fmt.Sprintf("%d>%d@%d %s", dc.Caller, dc.Callee, dc.Line, dc.Kind)
			if !okEdge {
				res.NoEdge = append(res.NoEdge, desc)
			}
			if !okResolve {
				res.NoResolve = append(res.NoResolve, desc)
			}
		}
		for id := range executed {
			ok := false
			for _, f := range idFuncs[id] {
				if reachable[f] {
					ok = true
				}
			}
			if !ok {
				res.NotReachableCG = append(res.NotReachableCG, id)
			}
		}
		sort.Ints(res.NotReachableCG)
		// C18
		sets := map[string]map[*ssa.Function]bool{}
		for _, sel := range []struct {
			k      string
			nm, ni bool
		}{{"00", false, false}, {"10", true, false}, {"01", false, true}, {"11", true, true}} {
			r := reachability.FindReachable(state, sel.nm, sel.ni, nil)
			sets[sel.k] = r
			res.ReachCount[sel.k] = len(r)
			ids := map[int]bool{}
			for f := range r {
				if id, ok := funcID[f]; ok {
					ids[id] = true
				}
				if !all[f] {
					res.NotInAll = append(res.NotInAll, sel.k+":"+f.String())
				}
			}
			for id := range ids {
				res.ReachIDs[sel.k] = append(res.ReachIDs[sel.k], id)
			}
			sort.Ints(res.ReachIDs[sel.k])
		}
		sub := func(a, b string) {
			for f := range sets[a] {
				if !sets[b][f] {
					res.NotMonotone = append(res.NotMonotone, fmt.Sprintf("%s in roots[%s] but not in roots[%s]", f.String(), a, b))
				}
			}
		}
		sub("10", "00")
		sub("01", "00")
		sub("11", "10")
		sub("11", "01")
		cgr := dataflow.CallGraphReachable(cg, false, false)
		res.CGCount = len(cgr)
		for f := range cgr {
			if f == nil || sets["00"][f] {
				continue
			}
			res.CGNotInReach = append(res.CGNotInReach, f.String())
			if n := cg.Nodes[f]; n != nil {
				for _, e := range n.In {
					if e.Site != nil && e.Site.Common().StaticCallee() == f && e.Caller != nil && sets["00"][e.Caller.Func] {
						res.CGNotInReachStatic = append(res.CGNotInReachStatic, e.Caller.Func.String()+" -> "+f.String())
						break
					}
				}
			}
			if id, ok := funcID[f]; ok {
				res.CGNotInReachIDs = append(res.CGNotInReachIDs, id)
			}
		}
		sort.Strings(res.CGNotInReach)
		sort.Ints(res.CGNotInReachIDs)
		sort.Strings(res.NotMonotone)
		core.WriteJSON(job.Out, res)
	}
}

// dispatchProgram is one generated dispatch program with its native events and analysis result.
type dispatchProgram struct {
	Cases []gen.DispatchCase
	Files map[string]string
	Calls []DynCall
	Res   *DispatchResult
	Dir   string
}

// runDispatch generates one program per group of forms, runs it natively and through the dispatch worker.
func runDispatch(run *core.Run, groups [][]gen.DispatchCase) []*dispatchProgram {
	out := make([]*dispatchProgram, len(groups))
	core.Parallel(len(groups), 8, func(gi int) {
		dp := &dispatchProgram{Cases: groups[gi]}
		dp.Dir = filepath.Join(run.Scratch, fmt.Sprintf("d%03d", gi))
		dp.Files = gen.RenderDispatch(groups[gi])
		if err := gen.WriteProgram(dp.Dir, dp.Files); err != nil {
			run.Inconclusive(err.Error())
			return
		}
		bin, err := gen.BuildNative(dp.Dir, "-gcflags=vprog/...=-l")
		if err != nil {
			run.Inconclusive("native build: " + err.Error())
			return
		}
		evs, err := gen.RunNative(bin, "", "", filepath.Join(dp.Dir, "events.log"))
		if err != nil {
			run.Inconclusive("native run: " + err.Error())
			return
		}
		_ = os.Remove(bin)
		for _, ev := range evs {
			if ev.Kind == "E" {
				dp.Calls = append(dp.Calls, DynCall{Callee: ev.ID, Caller: ev.Caller, Line: ev.CallerLine, Kind: ev.CallKind})
			}
		}
		job := &DispatchJob{Dir: dp.Dir, Calls: dp.Calls, Out: filepath.Join(dp.Dir, "dispatch.out.json")}
		jf := filepath.Join(dp.Dir, "dispatch.job.json")
		core.WriteJSON(jf, job)
		cr := SpawnWorker("dispatch", jf, 15*time.Minute)
		if cr.Status != "ok" {
			data, _ := os.ReadFile(cr.LogFile)
			if cr.Status == "panic" {
				run.Violation("analyzer-panic", "analysis crashed on a dispatch program: "+tailStr(string(data), 3000), withRT(dp.Files))
			} else {
				run.Inconclusive("dispatch worker " + cr.Status + ": " + tailStr(string(data), 300))
			}
			return
		}
		var res DispatchResult
		if err := core.ReadJSON(job.Out, &res); err != nil || res.Err != "" {
			run.Inconclusive(fmt.Sprintf("dispatch worker: %v %s", err, res.Err))
			return
		}
		dp.Res = &res
		out[gi] = dp
	})
	return out
}

// dispatchGroups builds the case groups: every form once (in groups), plus seed-dependent random mixes.
func dispatchGroups(seed int64, tier string, forms []string, per int, nRandom int) [][]gen.DispatchCase {
	var groups [][]gen.DispatchCase
	idx := 1
	var cur []gen.DispatchCase
	for _, f := range forms {
		cur = append(cur, gen.DispatchCase{Idx: idx, Form: f})
		idx++
		if len(cur) == per {
			groups = append(groups, cur)
			cur = nil
		}
	}
	if len(cur) > 0 {
		groups = append(groups, cur)
	}
	r := core.NewRNG(seed, "dispatch-"+tier)
	for g := 0; g < nRandom; g++ {
		var c []gen.DispatchCase
		for i := 0; i < per; i++ {
			c = append(c, gen.DispatchCase{Idx: idx, Form: forms[r.Intn(len(forms))]})
			idx++
		}
		groups = append(groups, c)
	}
	return groups
}

func formOfID(dp *dispatchProgram, id int) string {
	for _, c := range dp.Cases {
		if id >= gen.EnterBase(c.Idx) && id < gen.EnterBase(c.Idx)+20 {
			return fmt.Sprintf("%s#e%d", c.Form, id-gen.EnterBase(c.Idx))
		}
	}
	if id == 1 {
		return "main"
	}
	return fmt.Sprintf("?%d", id)
}

func singleCaseFiles(dp *dispatchProgram, id int) map[string]string {
	for _, c := range dp.Cases {
		if id >= gen.EnterBase(c.Idx) && id < gen.EnterBase(c.Idx)+20 {
			return withRT(gen.RenderDispatch([]gen.DispatchCase{c}))
		}
	}
	return withRT(dp.Files)
}

// C18 — the reachability analysis is conservative.
func C18(tier string) {
	run := core.NewRun("C18", tier)
	forms := gen.AllForms("")
	nRandom := 2
	if tier == "thorough" {
		nRandom = 30
	}
	progs := runDispatch(run, dispatchGroups(run.SeedV, tier, forms, 12, nRandom))
	executedTotal := 0
	for _, dp := range progs {
		if dp == nil {
			continue
		}
		res := dp.Res
		in := func(k string, id int) bool {
			for _, x := range res.ReachIDs[k] {
				if x == id {
					return true
				}
			}
			return false
		}
		executed := map[int]DynCall{}
		for _, dc := range dp.Calls {
			if _, ok := executed[dc.Callee]; !ok {
				executed[dc.Callee] = dc
			}
		}
		for id, dc := range executed {
			run.Eval(1)
			executedTotal++
			fo := formOfID(dp, id)
			run.Distinct(fo)
			if !in("00", id) {
				sig := "unreached:" + fo
				if run.IsKnown(sig) {
					continue
				}
				run.Violation(sig, fmt.Sprintf("function with Enter id %d (%s) executed natively (called from id %d, kind %s) but is not in FindReachable(main+init)", id, fo, dc.Caller, dc.Kind),
					singleCaseFiles(dp, id))
			}
		}
		// functions that run during package initialisation must survive -nomain
		initOnly := map[int]bool{}
		for _, dc := range dp.Calls {
			if dc.Kind == "root" && dc.Caller == -1 || dc.Caller == -2 {
				initOnly[dc.Callee] = true
			}
		}
		for id := range initOnly {
			fo := formOfID(dp, id)
			if fo == "main" || strings.HasSuffix(fo, "#e19") {
				continue
			}
			if strings.Contains(fo, "init") && !in("10", id) {
				sig := "unreached-nomain:" + fo
				if !run.IsKnown(sig) {
					run.Violation(sig, fmt.Sprintf("function %s (id %d) runs from a package initialiser but is not in FindReachable(-nomain)", fo, id), singleCaseFiles(dp, id))
				}
			}
		}
		seenCG := map[string]bool{}
		for _, id := range res.CGNotInReachIDs {
			fo := formOfID(dp, id)
			sig := "cg-not-reach:" + fo
			if seenCG[sig] || run.IsKnown(sig) {
				continue
			}
			seenCG[sig] = true
			run.Violation(sig, fmt.Sprintf("function %s (id %d) is reachable in the pointer-analysis call graph but not in FindReachable", fo, id), singleCaseFiles(dp, id))
		}
		// call-graph reachable functions outside the generated code (std) that FindReachable lacks
		nonGen := 0
		for _, n := range res.CGNotInReach {
			if !strings.HasPrefix(n, "vprog") && !strings.HasPrefix(n, "(vprog") && !strings.HasPrefix(n, "(*vprog") {
				nonGen++
			}
		}
		if nonGen > 0 {
			sig := "cg-not-reach:std"
			if !run.IsKnown(sig) {
				run.Violation(sig, fmt.Sprintf("%d standard-library functions are reachable in the pointer call graph but not in FindReachable, e.g. %v", nonGen, firstN(res.CGNotInReach, 5)), withRT(dp.Files))
			}
		}
		for _, s := range firstN(res.CGNotInReachStatic, 3) {
			run.Violation("cg-not-reach:static", "a function in FindReachable calls this function statically, yet it is not in FindReachable: "+s, withRT(dp.Files))
		}
		for _, s := range firstN(res.NotInAll, 3) {
			run.Violation("reach-not-in-all", "FindReachable returned a function that is not among all functions of the program: "+s, withRT(dp.Files))
		}
		for _, s := range firstN(res.NotMonotone, 3) {
			run.Violation("reach-not-monotone", "excluding a root enlarged the reachable set: "+s, withRT(dp.Files))
		}
		if len(res.ReachIDs["00"]) > 0 && dp == progs[0] {
			run.Sample(map[string]any{"forms": formNames(dp), "executed_ids": len(executed), "reach_counts": res.ReachCount, "all_functions": res.AllCount, "callgraph_reachable": res.CGCount})
		}
	}
	run.Cov["programs"] = len(progs)
	run.Cov["executed_function_observations"] = executedTotal
	run.Cov["forms"] = len(forms)
	run.Assumptions = append(run.Assumptions, "every generated function announces itself through rt.Enter(id) as its first statement; ids tie run-time events to SSA functions")
	run.Finish("exploration", "dispatch programs (one case per call form) executed natively; every function that executed must be in reachability.FindReachable; "+
		"pointer-call-graph reachable set and the four root selections compared as sets; distinct non-trivial = distinct (form, function role) observed executing")
}

func formNames(dp *dispatchProgram) []string {
	var l []string
	for _, c := range dp.Cases {
		l = append(l, c.Form)
	}
	return l
}

func firstN(l []string, n int) []string {
	if len(l) > n {
		return l[:n]
	}
	return l
}

// C12 — the call graph contains every call that happens at run time.
func C12(tier string) {
	run := core.NewRun("C12", tier)
	forms := gen.AllForms("")
	nRandom := 2
	if tier == "thorough" {
		nRandom = 30
	}
	progs := runDispatch(run, dispatchGroups(run.SeedV, tier, forms, 12, nRandom))
	edges := 0
	for _, dp := range progs {
		if dp == nil {
			continue
		}
		res := dp.Res
		edges += res.EdgesChecked
		for _, dc := range dp.Calls {
			run.Eval(1)
			run.Distinct(formOfID(dp, dc.Callee) + "/" + dc.Kind)
		}
		for _, id := range res.NotReachableCG {
			fo := formOfID(dp, id)
			sig := "not-reachable:" + fo
			if !run.IsKnown(sig) {
				run.Violation(sig, fmt.Sprintf("function %s (id %d) executed natively but is not in AnalyzerState.ReachableFunctions()", fo, id), singleCaseFiles(dp, id))
			}
		}
		report := func(kind string, list []string, what string) {
			seen := map[string]bool{}
			for _, d := range list {
				var caller, callee, line int
				var k string
				fmt.Sscanf(d, "%d>%d@%d %s", &caller, &callee, &line, &k)
				fo := formOfID(dp, callee)
				sig := kind + ":" + fo
				if seen[sig] || run.IsKnown(sig) {
					continue
				}
				seen[sig] = true
				run.Violation(sig, fmt.Sprintf("run-time call %s -> %s at main.go:%d (%s): %s", formOfID(dp, caller), fo, line, k, what), singleCaseFiles(dp, callee))
			}
		}
		report("no-edge", res.NoEdge, "the pointer-analysis call graph has no edge at that call site leading (through synthetic wrappers only) to the function entered")
		report("no-resolve", res.NoResolve, "ResolveCallee at that call site does not contain the function actually called")
		if dp == progs[0] {
			run.Sample(map[string]any{"forms": formNames(dp), "dynamic_calls": len(dp.Calls), "edges_checked": res.EdgesChecked, "first_calls": firstCalls(dp, 6)})
		}
	}
	run.Cov["programs"] = len(progs)
	run.Cov["dynamic_edges_checked"] = edges
	run.Cov["forms"] = len(forms)
	run.Assumptions = append(run.Assumptions, "native build with inlining disabled so that runtime.Callers frames are exact; caller/callee tied to SSA functions through rt.Enter ids",
		"call-site line check only for plain calls; deferred calls and calls made while panicking are matched on (caller, callee) only; goroutine entries and callbacks from the standard library are checked for reachability only")
	run.Finish("exploration", "dispatch programs executed natively with an Enter monitor that records (callee, caller, caller line, kind) from the run-time stack; every executed function must be in ReachableFunctions(), "+
		"every (caller site -> callee) transfer must be an edge of the pointer-analysis call graph through synthetic wrappers only, and ResolveCallee at the site must contain the callee; distinct = distinct (form, function role, call kind)")
}

func firstCalls(dp *dispatchProgram, n int) []string {
	var l []string
	for i, dc := range dp.Calls {
		if i >= n {
			break
		}
		l = append(l, fmt.Sprintf("%s <- %s @%d %s", formOfID(dp, dc.Callee), formOfID(dp, dc.Caller), dc.Line, dc.Kind))
	}
	return l
}
