package checks

import (
	"fmt"
	"go/constant"
	"os"
	"os/exec"
	"path/filepath"
	"sort"
	"sync"

	"github.com/awslabs/ar-go-tools/analysis/config"
	"github.com/awslabs/ar-go-tools/analysis/dataflow"
	"golang.org/x/tools/go/ssa"
	"golang.org/x/tools/go/ssa/ssautil"

	"verif/harness/ana"
	"verif/harness/core"
	"verif/harness/gen"
)

// AliasJob asks the worker whether the pointer analysis explains observed run-time aliasing.
type AliasJob struct {
	Dir    string   `json:"dir"`
	Pairs  [][2]int `json:"pairs"`  // probe ids observed with the same address and type
	Births [][2]int `json:"births"` // (probe id, birth probe id): the object seen at probe was allocated at the birth probe's site
	Inds   [][2]int `json:"inds"`   // (indirect probe id, probe id): *pp held the object that the direct probe observed
	Out    string   `json:"out"`
}

// AliasResult is the worker's answer.
type AliasResult struct {
	NoQuery       []int          `json:"no_query"`
	NotMayAlias   [][2]int       `json:"not_may_alias"`
	MissingLabel  [][2]int       `json:"missing_label"`
	IndNotAlias   [][2]int       `json:"ind_not_alias"`
	InnerNotAlias [][2]int       `json:"inner_not_alias"`
	InnerNoQuery  int            `json:"inner_no_query"`
	Checked       int            `json:"checked"`
	Desc          map[int]string `json:"desc"`
	Err           string         `json:"err,omitempty"`
}

func init() {
	extraWorkers["alias"] = func(jobFile string) {
		var job AliasJob
		if err := core.ReadJSON(jobFile, &job); err != nil {
			fmt.Fprintln(os.Stderr, err)
			os.Exit(2)
		}
		res := &AliasResult{Desc: map[int]string{}}
		l, err := ana.Load(job.Dir, true)
		if err != nil {
			res.Err = "load: " + err.Error()
			core.WriteJSON(job.Out, res)
			return
		}
		cfg := config.NewDefault()
		cfg.LogLevel = int(config.ErrLevel)
		state, err := dataflow.NewInitializedAnalyzerState(l.Prog, l.Pkgs, config.NewLogGroup(cfg), cfg)
		if err != nil {
			res.Err = "state: " + err.Error()
			core.WriteJSON(job.Out, res)
			return
		}
		probed := map[int]ssa.Value{}
		probeLine := map[int]int{}
		for f := range ssautil.AllFunctions(l.Prog) {
			if f.Pkg == nil || f.Pkg.Pkg.Name() != "main" {
				continue
			}
			for _, b := range f.Blocks {
				for _, ins := range b.Instrs {
					c, ok := ins.(*ssa.Call)
					if !ok {
						continue
					}
					if bi, ok := c.Call.Value.(*ssa.Builtin); ok && bi.Name() == "println" && len(c.Call.Args) == 4 {
						// probe of a bare program: println("P", id, "<type>", v)
						if k, ok := c.Call.Args[1].(*ssa.Const); ok && k.Value != nil {
							if id64, ok := constant.Int64Val(k.Value); ok {
								id := int(id64)
								v := c.Call.Args[3]
								probed[id] = v
								pos := l.Prog.Fset.Position(c.Pos())
								probeLine[id] = pos.Line
								res.Desc[id] = fmt.Sprintf("%s (%T) at main.go:%d", v.Name(), v, pos.Line)
							}
						}
						continue
					}
					cal := c.Call.StaticCallee()
					if cal == nil || (cal.Name() != "Probe" && cal.Name() != "ProbeInd") || len(c.Call.Args) != 2 {
						continue
					}
					id := constArg(&c.Call)
					if mi, ok := c.Call.Args[1].(*ssa.MakeInterface); ok {
						probed[id] = mi.X
						pos := l.Prog.Fset.Position(c.Pos())
						probeLine[id] = pos.Line
						res.Desc[id] = fmt.Sprintf("%s (%T) at main.go:%d", mi.X.Name(), mi.X, pos.Line)
					}
				}
			}
		}
		q := state.PointerAnalysis.Queries
		noq := map[int]bool{}
		for _, p := range job.Pairs {
			a, b := probed[p[0]], probed[p[1]]
			if a == nil || b == nil {
				continue
			}
			pa, oka := q[a]
			pb, okb := q[b]
			if !oka {
				noq[p[0]] = true
			}
			if !okb {
				noq[p[1]] = true
			}
			if !oka || !okb {
				continue
			}
			res.Checked++
			if !pa.MayAlias(pb) {
				res.NotMayAlias = append(res.NotMayAlias, p)
			}
		}
		for _, bp := range job.Births {
			v, alloc := probed[bp[0]], probed[bp[1]]
			if v == nil || alloc == nil {
				continue
			}
			pv, ok := q[v]
			if !ok {
				noq[bp[0]] = true
				continue
			}
			res.Checked++
			// the allocation statement is on the line just before its birth probe (generator invariant); the
			// birth probe's own SSA value may be a load from a captured variable's cell, so sites are matched by line
			allocLine := probeLine[bp[1]] - 1
			found := false
			for _, lab := range pv.PointsTo().Labels() {
				if lab.Value() == alloc {
					found = true
					break
				}
				if lv := lab.Value(); lv != nil && lv.Pos().IsValid() && l.Prog.Fset.Position(lv.Pos()).Line == allocLine {
					found = true
					break
				}
			}
			if !found {
				res.MissingLabel = append(res.MissingLabel, bp)
			}
		}
		iq := state.PointerAnalysis.IndirectQueries
		for _, ip := range job.Inds {
			pp, v := probed[ip[0]], probed[ip[1]]
			if pp == nil || v == nil {
				continue
			}
			pi, ok1 := iq[pp]
			pv, ok2 := q[v]
			if !ok1 {
				noq[ip[0]] = true
			}
			if !ok1 || !ok2 {
				continue
			}
			res.Checked++
			if !pi.MayAlias(pv) {
				res.IndNotAlias = append(res.IndNotAlias, ip)
			}
			// The probed value is the result of a call to a short, call-free accessor that the pointer analysis
			// analyses once per static call site. The address computed inside the accessor is, at run time, the
			// very value the call returned, so the same obligations hold for the value inside the accessor, whose
			// canonical query nodes must merge every calling context.
			if call, ok := pp.(*ssa.Call); ok {
				if cal := call.Call.StaticCallee(); cal != nil && len(cal.Blocks) == 1 {
					if ret, ok := cal.Blocks[0].Instrs[len(cal.Blocks[0].Instrs)-1].(*ssa.Return); ok && len(ret.Results) == 1 {
						inner := ret.Results[0]
						ii, ok3 := iq[inner]
						di, ok4 := q[inner]
						if ok3 {
							res.Checked++
							if !ii.MayAlias(pv) {
								res.InnerNotAlias = append(res.InnerNotAlias, ip)
							}
						}
						if ok4 {
							if pq, ok5 := q[pp]; ok5 {
								res.Checked++
								if !di.MayAlias(pq) {
									res.InnerNotAlias = append(res.InnerNotAlias, [2]int{ip[0], ip[0]})
								}
							}
						}
						if !ok3 || !ok4 {
							res.InnerNoQuery++
						}
					}
				}
			}
		}
		for id := range noq {
			res.NoQuery = append(res.NoQuery, id)
		}
		sort.Ints(res.NoQuery)
		core.WriteJSON(job.Out, res)
	}
}

// C11 — the pointer analysis never misses an alias that occurs at run time.
func C11(tier string) {
	run := core.NewRun("C11", tier)
	nProgs, nFuncs, nSteps := 6, 8, 22
	if tier == "thorough" {
		nProgs, nFuncs, nSteps = 60, 10, 30
	}
	if tier == "smoke" {
		nProgs = 1
	}
	var mu sync.Mutex
	pairsTotal, birthsTotal, checked, indsTotal := 0, 0, 0, 0
	nBare := nProgs / 2
	core.Parallel(nProgs+nBare, 6, func(pi int) {
		r := core.NewRNG(run.SeedV, fmt.Sprintf("c11-%s-%d", tier, pi))
		bare := pi >= nProgs
		var files map[string]string
		var births, inds map[int]bool
		dir := filepath.Join(run.Scratch, fmt.Sprintf("heap%02d", pi))
		if bare {
			// println-only programs whose maps, channels and slices all have named types and that contain no
			// interface-typed operand: the tracked kinds must be derived from the named types alone
			files, births = gen.RenderBareProgram(r, nFuncs, nSteps)
			for name, content := range files {
				_ = os.MkdirAll(dir, 0o755)
				if err := os.WriteFile(filepath.Join(dir, name), []byte(content), 0o644); err != nil {
					run.Inconclusive(err.Error())
					return
				}
			}
		} else {
			files, births, inds = gen.RenderHeapProgram2(r, nFuncs, nSteps)
			if err := gen.WriteProgram(dir, files); err != nil {
				run.Inconclusive(err.Error())
				return
			}
		}
		var bin string
		var err error
		if !bare {
			bin, err = gen.BuildNative(dir)
		} else {
			bin, err = gen.BuildNative(dir, "-ldflags", "-X main.bits=000000")
		}
		if err != nil {
			run.Inconclusive("generator produced a program that does not build: " + tailStr(err.Error(), 800))
			return
		}
		replayFiles := files
		if !bare {
			replayFiles = withRT(files)
		}
		pairSet := map[[2]int]bool{}
		birthSet := map[[2]int]bool{}
		indSet := map[[2]int]bool{}
		for in := 0; in < 64; in++ {
			var evs []gen.Event
			var err error
			if bare {
				// the input is linked in; 8 of the 64 inputs are used
				if in%9 != 0 {
					continue
				}
				if in != 0 {
					if bin, err = gen.BuildNative(dir, "-ldflags", "-X main.bits="+fmt.Sprintf("%06b", in)); err != nil {
						run.Inconclusive("relink failed: " + tailStr(err.Error(), 300))
						return
					}
				}
				cmd := exec.Command(bin)
				cmd.Env = append(os.Environ(), "GOGC=off")
				var out []byte
				out, err = cmd.CombinedOutput()
				evs = gen.ParseBareEvents(string(out))
			} else {
				evs, err = gen.RunNative(bin, fmt.Sprintf("%06b", in), "", filepath.Join(dir, "events.log"), "GOGC=off")
			}
			if err != nil {
				run.Inconclusive("native run failed: " + tailStr(err.Error(), 300))
				return
			}
			byAddr := map[string][]int{}
			for _, ev := range evs {
				if ev.Kind != "P" || ev.Addr == "0" || ev.Addr == "" {
					continue
				}
				k := ev.Addr + "|" + ev.Type
				byAddr[k] = append(byAddr[k], ev.ID)
			}
			for _, ev := range evs {
				if ev.Kind != "Q" || ev.Addr == "0" || ev.Addr == "" || !inds[ev.ID] {
					continue
				}
				for _, d := range byAddr[ev.Addr+"|"+ev.Type] {
					indSet[[2]int{ev.ID, d}] = true
				}
			}
			for _, ids := range byAddr {
				for i := 0; i < len(ids); i++ {
					for j := i + 1; j < len(ids); j++ {
						a, b := ids[i], ids[j]
						if a == b {
							continue
						}
						if a > b {
							a, b = b, a
						}
						pairSet[[2]int{a, b}] = true
						if births[a] {
							birthSet[[2]int{b, a}] = true
						}
						if births[b] && !births[a] {
							birthSet[[2]int{a, b}] = true
						}
					}
				}
			}
		}
		_ = os.Remove(bin)
		job := &AliasJob{Dir: dir, Out: filepath.Join(dir, "alias.out.json")}
		for p := range pairSet {
			job.Pairs = append(job.Pairs, p)
		}
		for p := range birthSet {
			job.Births = append(job.Births, p)
		}
		for p := range indSet {
			job.Inds = append(job.Inds, p)
		}
		sort.Slice(job.Pairs, func(i, j int) bool {
			return job.Pairs[i][0]*100000+job.Pairs[i][1] < job.Pairs[j][0]*100000+job.Pairs[j][1]
		})
		jf := filepath.Join(dir, "alias.job.json")
		core.WriteJSON(jf, job)
		cr := SpawnWorker("alias", jf, 0)
		var res AliasResult
		if cr.Status != "ok" || core.ReadJSON(job.Out, &res) != nil || res.Err != "" {
			data, _ := os.ReadFile(cr.LogFile)
			if cr.Status == "panic" {
				run.Violation("analyzer-panic", "pointer analysis crashed: "+tailStr(string(data), 3000), replayFiles)
			} else {
				run.Inconclusive("alias worker " + cr.Status + " " + res.Err)
			}
			return
		}
		mu.Lock()
		pairsTotal += len(job.Pairs)
		birthsTotal += len(job.Births)
		indsTotal += len(job.Inds)
		checked += res.Checked
		mu.Unlock()
		run.Eval(len(job.Pairs) + len(job.Births))
		for _, p := range job.Pairs {
			run.Distinct(fmt.Sprintf("%d:%d-%d", pi, p[0], p[1]))
		}
		for _, p := range res.NotMayAlias {
			sig := "not-may-alias"
			if run.IsKnown(sig) {
				continue
			}
			run.Violation(fmt.Sprintf("%s:%d:%d-%d", sig, pi, p[0], p[1]), fmt.Sprintf("probes %d [%s] and %d [%s] observed the same object in one execution, but MayAlias of their points-to sets is false", p[0], res.Desc[p[0]], p[1], res.Desc[p[1]]), replayFiles)
		}
		for _, p := range res.IndNotAlias {
			run.Violation(fmt.Sprintf("indirect-not-may-alias:%d:%d-%d", pi, p[0], p[1]), fmt.Sprintf("indirect probe %d [%s] held, at run time, the object that probe %d [%s] observed, but the indirect points-to set of the former does not intersect the points-to set of the latter", p[0], res.Desc[p[0]], p[1], res.Desc[p[1]]), replayFiles)
		}
		for _, p := range res.InnerNotAlias {
			run.Violation(fmt.Sprintf("accessor-value-not-may-alias:%d:%d-%d", pi, p[0], p[1]), fmt.Sprintf("the value returned inside the accessor called for indirect probe %d [%s] was, at run time, the probed pointer, which held the object that probe %d [%s] observed; the accessor value's canonical points-to sets (merged over calling contexts) do not intersect the observed one", p[0], res.Desc[p[0]], p[1], res.Desc[p[1]]), replayFiles)
		}
		if res.InnerNoQuery > 0 {
			run.Violation(fmt.Sprintf("accessor-value-no-query:%d", pi), "the pointer returned inside the accessor has no (indirect) query although it is an operand of pointer-to-pointer type in a user function", replayFiles)
		}
		for _, p := range res.MissingLabel {
			run.Violation(fmt.Sprintf("missing-alloc-label:%d:%d-%d", pi, p[0], p[1]), fmt.Sprintf("probe %d [%s] observed the object allocated at probe %d [%s], but that allocation site is not in its points-to set", p[0], res.Desc[p[0]], p[1], res.Desc[p[1]]), replayFiles)
		}
		if len(res.NoQuery) > 0 {
			sig := "no-query"
			if !run.IsKnown(sig) {
				run.Violation(sig, fmt.Sprintf("%d probed pointer-like values of user functions have no pointer query registered, e.g. probe %d [%s]", len(res.NoQuery), res.NoQuery[0], res.Desc[res.NoQuery[0]]), replayFiles)
			}
		}
		if pi == 0 && len(job.Pairs) > 0 {
			p := job.Pairs[0]
			run.Sample(map[string]any{"alias_pair": []string{res.Desc[p[0]], res.Desc[p[1]]}, "pairs": len(job.Pairs), "births": len(job.Births)})
		}
	})
	run.Cov["programs"] = nProgs
	run.Cov["println-only_programs_with_named_map/chan/slice_types_and_no_interface_operand"] = nBare
	run.Cov["observed_alias_pairs"] = pairsTotal
	run.Cov["observed_(value,allocation_site)_pairs"] = birthsTotal
	run.Cov["observed_(pointer-to-pointer,pointee)_pairs"] = indsTotal
	run.Cov["obligations_checked_against_queries"] = checked
	run.Assumptions = append(run.Assumptions, "GC is disabled in the native runs, so an address identifies one object for a whole execution; only pairs of the same dynamic (= static) type are compared",
		"the analyzer state is built exactly as the tools build it (NewInitializedAnalyzerState)")
	run.Finish("exploration", "random heap-shape scripts (allocation, copy, field/slice/map/channel store and load, append, calls, closures, interface boxing, globals, pointer-to-field, method and interface calls) with a probe after every step, executed under all 2^6 inputs; "+
		"non-trivial = distinct pair of probes that observed the same address; oracle: MayAlias of the two SSA values' points-to sets, and the allocation instruction among the value's points-to labels")
}
