package checks

import (
	"fmt"
	"os"
	"path/filepath"
	"regexp"
	"strings"

	"verif/harness/core"
	"verif/harness/gen"
)

// Field-read and allocation identifiers (the non-call kinds of code identifiers). Every candidate is a function whose
// only possible source is one field read / allocation, followed by a probe sink. The reference model is the identifier
// the documentation describes: package *name* of the declared type, type name with a leading * for pointers, field
// name, and the enclosing function as context.

type c04FieldCand struct {
	N     int
	Ctx   string // function name
	Type  string // Rec or Other
	Field string // "" for an allocation candidate
	Ptr   bool   // access through a pointer (type name "*Rec") or on a value ("Rec")
}

type c04FieldPat struct {
	Name, Package, Type, Field, Context string
}

func (p c04FieldPat) matches(c c04FieldCand) bool {
	m := func(pat, s string) bool {
		if pat == "" {
			return true
		}
		ok, _ := regexp.MatchString(pat, s)
		return ok
	}
	tn := c.Type
	if c.Ptr {
		tn = "*" + tn
	}
	return m(p.Package, "lib") && m(p.Type, tn) && m(p.Field, c.Field) && m(p.Context, "vprog."+c.Ctx)
}

func (p c04FieldPat) yaml(od bool) string {
	var sb strings.Builder
	sb.WriteString("taint-tracking-problems:\n  - sources:\n")
	first := true
	kv := func(k, v string) {
		if v == "" {
			return
		}
		pre := "        "
		if first {
			pre = "      - "
			first = false
		}
		fmt.Fprintf(&sb, "%s%s: %q\n", pre, k, v)
	}
	kv("package", p.Package)
	kv("type", p.Type)
	kv("field", p.Field)
	kv("context", p.Context)
	sb.WriteString("    sinks:\n      - package: \"vprog/rt$\"\n        method: \"^Sink$\"\n")
	sb.WriteString("options:\n  log-level: 1\n")
	if od {
		sb.WriteString("  summarize-on-demand: true\n")
	}
	return sb.String()
}

func c04FieldCands() []c04FieldCand {
	var out []c04FieldCand
	n := 1
	for _, ctx := range []string{"alpha", "beta"} {
		for _, ty := range []string{"Rec", "Other"} {
			for _, fld := range []string{"Secret", "Public", ""} {
				for _, ptr := range []bool{true, false} {
					if fld == "" && !ptr {
						continue // an allocation candidate is always new(T)
					}
					for rep := 0; rep < 2; rep++ { // the same (type, field) twice in each context family
						out = append(out, c04FieldCand{N: n, Ctx: fmt.Sprintf("%s_%d", ctx, n), Type: ty, Field: fld, Ptr: ptr})
						n++
					}
				}
			}
		}
	}
	return out
}

func c04FieldPats() []c04FieldPat {
	return []c04FieldPat{
		{Name: "f-type-field", Package: "lib", Type: "Rec", Field: "^Secret$"},
		{Name: "f-ptr-only", Type: `^\*Rec$`, Field: "Secret"},
		{Name: "f-value-only", Package: "^lib$", Type: "^Rec$", Field: "Secret|Public"},
		{Name: "f-context-alpha", Package: "lib", Field: "^Secret$", Context: `\.alpha_[0-9]+$`},
		{Name: "f-context-beta-other", Package: "lib", Type: "Other", Field: "Public", Context: "beta"},
		{Name: "f-field-any-type", Field: "^Public$"},
		{Name: "f-no-match", Package: "lib", Type: "Nothing", Field: "Secret"},
		{Name: "a-alloc-context", Package: "lib", Type: `^\*Other$`, Context: `\.alpha_`},
		{Name: "a-alloc-field-empty", Package: "lib", Type: `^\*Rec$`, Context: `\.(alpha|beta)_[0-9]+$`},
	}
}

func renderC04Fields(cands []c04FieldCand) map[string]string {
	var m strings.Builder
	m.WriteString("package main\n\nimport (\n\t\"vprog/lib\"\n\t\"vprog/rt\"\n)\n\n")
	for _, c := range cands {
		fmt.Fprintf(&m, "func %s() {\n", c.Ctx)
		switch {
		case c.Field == "":
			fmt.Fprintf(&m, "\tq := new(lib.%s)\n\trt.Sink(%d, q)\n", c.Type, c.N)
		case c.Ptr:
			fmt.Fprintf(&m, "\tp := lib.New%s()\n\tx := p.%s\n\trt.Sink(%d, x)\n", c.Type, c.Field, c.N)
		default:
			// a field of a non-addressable value (ssa.Field); a local struct variable would be accessed through its address
			fmt.Fprintf(&m, "\tx := lib.Val%s().%s\n\trt.Sink(%d, x)\n", c.Type, c.Field, c.N)
		}
		m.WriteString("}\n\n")
	}
	m.WriteString("func main() {\n\tdefer rt.Done()\n")
	for _, c := range cands {
		fmt.Fprintf(&m, "\t%s()\n", c.Ctx)
	}
	m.WriteString("}\n")
	lib := `// Package lib declares the record types.
package lib

// Rec is a record.
type Rec struct {
	Secret string
	Public string
}

// Other is another record with the same field names.
type Other struct {
	Secret string
	Public string
}

var recs = map[string]*Rec{}
var others = map[string]*Other{}

// NewRec returns a record without touching its fields.
func NewRec() *Rec { return recs["k"] }

// NewOther returns a record without touching its fields.
func NewOther() *Other { return others["k"] }

// ValRec returns a record value.
func ValRec() Rec { return *recs["k"] }

// ValOther returns a record value.
func ValOther() Other { return *others["k"] }
`
	return map[string]string{"main.go": m.String(), "lib/lib.go": lib}
}

// c04Fields runs the field/allocation identifier part of C04 and returns (expecting identification, expecting none).
func c04Fields(run *core.Run, tier string) (int, int) {
	cands := c04FieldCands()
	pats := c04FieldPats()
	dir := filepath.Join(run.Scratch, "progf")
	files := renderC04Fields(cands)
	if err := gen.WriteProgram(dir, files); err != nil {
		run.Inconclusive(err.Error())
		return 0, 0
	}
	if err := gen.VetStub(dir); err != nil {
		run.Inconclusive("generator bug: " + err.Error())
		return 0, 0
	}
	sites := gen.ScanSites(files)
	job := &TaintJob{Dir: dir, Out: filepath.Join(dir, "out.json")}
	reps := 2
	if tier == "thorough" {
		reps = 4
	}
	for _, p := range pats {
		for _, od := range []bool{false, true} {
			name := fmt.Sprintf("%s/od%d", p.Name, b2i(od))
			cp := filepath.Join(dir, "cfg-"+strings.ReplaceAll(name, "/", "_")+".yaml")
			_ = os.WriteFile(cp, []byte(p.yaml(od)), 0o644)
			// repeated: identification must not depend on the order in which the parallel passes see the functions
			job.Runs = append(job.Runs, TaintRunSpec{Name: name, Config: cp, Rewrites: true, Repeat: reps})
		}
	}
	jf := filepath.Join(dir, "job.json")
	core.WriteJSON(jf, job)
	cr := SpawnWorker("taint", jf, 0)
	if cr.Status != "ok" {
		data, _ := os.ReadFile(cr.LogFile)
		if cr.Status == "panic" {
			run.Violation("analyzer-panic:fields", "analysis crashed: "+tailStr(string(data), 3000), withRT(files))
		} else {
			run.Inconclusive("worker " + cr.Status + ": " + tailStr(string(data), 300))
		}
		return 0, 0
	}
	var res TaintJobResult
	if err := core.ReadJSON(job.Out, &res); err != nil || res.Err != "" {
		run.Inconclusive(fmt.Sprintf("worker result: %v %s", err, res.Err))
		return 0, 0
	}
	matched, unmatched := 0, 0
	for name, rr := range res.Results {
		parts := strings.Split(name, "/")
		var pat c04FieldPat
		for _, p := range pats {
			if p.Name == parts[0] {
				pat = p
			}
		}
		for ri, rep := range rr {
			hit := map[int]bool{}
			for _, f := range rep.Flows {
				if id, ok := sites.SnkLine[f.Snk.String()]; ok {
					hit[id] = true
				}
			}
			for _, c := range cands {
				run.Eval(1)
				want := pat.matches(c)
				kindOf := "field"
				if c.Field == "" {
					kindOf = "alloc"
				}
				via := "value"
				if c.Ptr {
					via = "pointer"
				}
				if want {
					matched++
					run.Distinct(fmt.Sprintf("%s/%s/%s/%s", pat.Name, kindOf, via, c.Type))
				} else {
					unmatched++
				}
				if want == hit[c.N] {
					continue
				}
				kind := "not-identified"
				if hit[c.N] {
					kind = "wrongly-identified"
				}
				cls := "plain"
				if pat.Context != "" {
					cls = "context"
				}
				sig := fmt.Sprintf("%s:source:%s-%s:%s", kind, kindOf, via, cls)
				if run.IsKnown(sig) {
					continue
				}
				fl := withRT(files)
				fl["cfg.yaml"] = pat.yaml(parts[1] == "od1")
				run.Violation(sig, fmt.Sprintf("pattern %q {package:%q type:%q field:%q context:%q} as source (%s, repetition %d): candidate #%d in %s (%s of lib.%s, field %q, through a %s) %s by the reference regexp, but the tool %s it",
					pat.Name, pat.Package, pat.Type, pat.Field, pat.Context, parts[1], ri, c.N, c.Ctx, kindOf, c.Type, c.Field, via,
					map[bool]string{true: "is matched", false: "is not matched"}[want], map[bool]string{true: "identified", false: "did not identify"}[hit[c.N]]), fl)
			}
		}
	}
	return matched, unmatched
}
