package checks

import (
	"fmt"
	"strings"

	"verif/harness/core"
	"verif/harness/gen"
)

func c03Opts() ChainOpts {
	return ChainOpts{Cfgs: []ChainCfg{{Name: "bt-eager", Rewrites: true}, {Name: "bt-ondemand", OnDemand: true, Rewrites: true}}, Repeat: 1, Analysis: "backtrace", IsolateCfgs: true}
}

func init() { chainOptsByCheck["C03"] = c03Opts }

// C03 — backtrace reports every backward data flow from a backtrace point, with well-formed traces.
func C03(tier string) {
	run := core.NewRun("C03", tier)
	links := gen.AllLinks(nil, []string{"conc", "guard"})
	var chains []gen.Chain
	switch tier {
	case "thorough":
		chains = chainWorkload(run.SeedV, tier, links, 800, 150, 7)
	case "triage":
		chains = chainWorkload(run.SeedV, tier, links, 0, 0, 3)
	case "smoke":
		chains = chainWorkload(run.SeedV, tier, links[:40], 0, 0, 3)
	default:
		chains = chainWorkload(run.SeedV, tier, links, 300, 60, 5)
	}
	opts := c03Opts()
	per := 45
	if tier == "triage1" {
		// development aid: every single link alone in its own program (backtrace results depend on what else is in
		// the program on the pinned tree)
		chains = chainWorkload(run.SeedV, tier, links, 0, 0, 3)
		per = 1
	}
	outs := ProcessBatches(run, "b", toBatches(chains, per), opts)
	// trace shape (well-formedness) is asserted on every trace of every batch
	traces := 0
	for _, o := range outs {
		for cfg, reps := range o.Raw {
			for _, r := range reps {
				traces += r.Traces
				for _, sh := range r.Shape {
					sig := "trace-shape:" + shapeKind(sh)
					if run.IsKnown(sig) {
						continue
					}
					run.Violation(sig, fmt.Sprintf("config %s: malformed trace: %s", cfg, sh), copyFiles(o))
				}
			}
		}
	}
	finishChains(run, outs, opts, nil, "")
	run.Cov["traces_checked_for_shape"] = traces
	run.Assumptions = append(run.Assumptions, "an observed origin is matched when some trace reported for the sink's data argument contains a node positioned at the source call",
		"trace shape: last node is the entry argument; consecutive nodes are an In()/Out() edge or a recognised inter-procedural step")
	run.Finish("exploration", "the C01 chain programs with the sinks configured as backtrace points, eager and on-demand; non-trivial = chain whose flow was observed natively; "+
		"oracle: for every observed (source, sink) pair some reported trace of that sink argument contains the source call; every reported trace is checked for shape on the live graph")
}

func shapeKind(s string) string {
	// keep only the bracketed node-kind part so that signatures do not depend on positions or names
	i, j := strings.Index(s, "["), strings.Index(s, "]")
	if i >= 0 && j > i {
		return s[i : j+1]
	}
	return "generic"
}
