package checks

// Registry maps property ids to check entry points.
var Registry = map[string]func(tier string){
	"C01": C01,
	"C16": C16,
	"C10": C10,
}
