package checks

// Registry maps property ids to check entry points.
var Registry = map[string]func(tier string){
	"C01": C01,
	"C16": C16,
	"C07": C07,
	"C15": C15,
	"C13": C13,
	"C14": C14,
	"C11": C11,
	"C09": C09,
	"C04": C04,
	"C08": C08,
	"C02": C02,
	"C06": C06,
	"C03": C03,
	"C17": C17,
	"C05": C05,
	"C19": C19,
	"C18": C18,
	"C12": C12,
	"C20": C20,
	"C10": C10,
}
