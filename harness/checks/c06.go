package checks

import (
	"crypto/sha256"
	"encoding/hex"
	"fmt"
	"os"
	"path/filepath"
	"runtime"
	"sort"
	"strings"
	"sync"
	"time"

	"github.com/awslabs/ar-go-tools/analysis"
	"github.com/awslabs/ar-go-tools/analysis/dataflow"

	"verif/harness/ana"
	"verif/harness/core"
	"verif/harness/gen"
)

// DetJob asks a child to run the same analysis several times and report canonical result sets.
type DetJob struct {
	Dir       string `json:"dir"`
	Config    string `json:"config"`
	Repeats   int    `json:"repeats"`
	Backtrace bool   `json:"backtrace"`
	YieldSeed int64  `json:"yield_seed"`
	Out       string `json:"out"`
}

// DetRun is the canonical result of one repetition.
type DetRun struct {
	Flows     []string `json:"flows"`     // "src -> snk"
	Escapes   []string `json:"escapes"`   // source positions reported as escaping
	Endpoints []string `json:"endpoints"` // backtrace: "entry site#arg <= origin pos kind"
	Order     string   `json:"order"`     // hash of the order in which entry points were visited (taint)
	NEntries  int      `json:"n_entries"`
	Err       string   `json:"err,omitempty"`
}

// DetResult is the child's answer.
type DetResult struct {
	Runs []DetRun `json:"runs"`
	Err  string   `json:"err,omitempty"`
}

func init() {
	extraWorkers["det"] = func(jobFile string) {
		var job DetJob
		if err := core.ReadJSON(jobFile, &job); err != nil {
			fmt.Fprintln(os.Stderr, err)
			os.Exit(2)
		}
		res := &DetResult{}
		rng := core.NewRNG(job.YieldSeed, "det-yield")
		var rmu sync.Mutex
		analysis.VerifSetHook(func(site string) {
			if strings.HasSuffix(site, ".step") {
				return
			}
			rmu.Lock()
			v := rng.Intn(6)
			rmu.Unlock()
			switch {
			case v < 3:
				runtime.Gosched()
			case v < 4:
				time.Sleep(time.Duration(30+v*40) * time.Microsecond)
			}
		})
		l, err := ana.Load(job.Dir, true)
		if err != nil {
			res.Err = "load: " + err.Error()
			core.WriteJSON(job.Out, res)
			return
		}
		for k := 0; k < job.Repeats; k++ {
			cfg, err := ana.LoadConfig(job.Config)
			if err != nil {
				res.Err = "config: " + err.Error()
				break
			}
			dr := DetRun{}
			if job.Backtrace {
				br, _ := l.Backtrace(cfg)
				dr.Err = br.Err
				set := map[string]bool{}
				for _, e := range br.Entries {
					for _, t := range e.Traces {
						if len(t) == 0 {
							continue
						}
						o := t[0]
						set[fmt.Sprintf("%s#%d <= %s:%d %s", e.Site, e.Arg, o.File, o.Line, o.Kind)] = true
					}
				}
				for s := range set {
					dr.Endpoints = append(dr.Endpoints, s)
				}
				sort.Strings(dr.Endpoints)
			} else {
				// taint with an order-recording visitor wrapper (same driver sequence as taint.Analyze)
				var order []string
				tr, _ := l.Taint(cfg)
				dr.Err = tr.Err
				for _, f := range tr.Flows {
					dr.Flows = append(dr.Flows, f.Src.String()+" -> "+f.Snk.String())
				}
				for _, p := range tr.EscapeSrcs {
					dr.Escapes = append(dr.Escapes, p.String())
				}
				cfg2, _ := ana.LoadConfig(job.Config)
				_ = runTaintOrder(l, cfg2, &order)
				h := sha256.Sum256([]byte(strings.Join(order, "|")))
				dr.Order = hex.EncodeToString(h[:6])
				dr.NEntries = len(order)
			}
			res.Runs = append(res.Runs, dr)
		}
		core.WriteJSON(job.Out, res)
	}
}

type orderVisitor struct {
	l     *ana.Loaded
	order *[]string
}

func (o *orderVisitor) Visit(s *dataflow.AnalyzerState, entry dataflow.NodeWithTrace) {
	pos := entry.Node.Position(s)
	*o.order = append(*o.order, fmt.Sprintf("%s:%d", filepath.Base(pos.Filename), pos.Line))
}

// runTaintOrder records the order in which the driver hands entry points to the visitor (map iteration order
// inside the tool): evidence that iteration-order diversity was actually exercised.
func runTaintOrder(l *ana.Loaded, cfg *configT, order *[]string) error {
	return runTaintWithVisitor(l, cfg, func(inner dataflow.Visitor) dataflow.Visitor {
		return &orderVisitor{l: l, order: order}
	})
}

type detProgram struct {
	Name      string
	Dir       string
	YAML      string
	OrigDir   string
	Backtrace bool
	Files     map[string]string
	Batch     *gen.Batch
}

// C06 — analysis results are deterministic.
func C06(tier string) {
	run := core.NewRun("C06", tier)
	var progs []detProgram
	links := gen.AllLinks(nil, []string{"conc", "guard"})
	r := core.NewRNG(run.SeedV, "c06-"+tier)
	nGen, procs, repeats := 2, 3, 2
	gmps := []int{1, 4, 16}
	if tier == "thorough" {
		nGen, procs, repeats = 5, 5, 3
		gmps = []int{1, 2, 4, 16}
	}
	if tier == "smoke" {
		nGen, procs, repeats = 1, 2, 2
	}
	for p := 0; p < nGen; p++ {
		var chains []gen.Chain
		for i := 0; i < 30; i++ {
			n := 1 + r.Intn(3)
			var l []string
			for j := 0; j < n; j++ {
				l = append(l, links[r.Intn(len(links))])
			}
			chains = append(chains, gen.Chain{ID: i + 1, Links: l})
		}
		b := &gen.Batch{Chains: chains}
		dir := filepath.Join(run.Scratch, fmt.Sprintf("gen%02d", p))
		files := b.Files()
		if err := gen.WriteProgram(dir, files); err != nil {
			run.Inconclusive(err.Error())
			continue
		}
		for _, bt := range []bool{false, true} {
			c := ChainCfg{Name: "fs", FieldSens: true, Rewrites: true, OnDemand: p%2 == 1}
			progs = append(progs, detProgram{Name: fmt.Sprintf("gen%02d-bt%d", p, b2i(bt)), Dir: dir, YAML: c.YAML(), OrigDir: dir, Backtrace: bt, Files: files, Batch: b})
		}
	}
	// A fixed program aimed at order-dependent state: same-named local types with different fields in several
	// functions (anything cached by a type's printed name), long chains and fork/join shapes analysed with a depth
	// bound (anything that depends on which path reaches a node first). The untainted field of every local record
	// goes to rt.Nop2, configured as a sink here, so that a loss of field sensitivity changes the flow set.
	if tier != "smoke" {
		var chains []gen.Chain
		id := 1
		addc := func(l ...string) {
			chains = append(chains, gen.Chain{ID: id, Links: l})
			id++
		}
		for k := 0; k < 3; k++ {
			addc("localtypea")
			addc("localtypeb")
			addc("localtypea", "concat")
			addc("idcall", "localtypeb")
		}
		for k := 0; k < 2; k++ {
			addc("forkjoindeepa")
			addc("forkjoindeepb")
			addc("forkjoindeepa", "idcall")
			addc("idcall", "forkjoindeepb")
			addc("forkjoindeepb", "forkjoindeepa")
		}
		addc("ifdiamond", "idcall", "structfield", "closureret", "concat", "idcall")
		addc("idcall", "ifdiamond", "idcall", "ifdiamond", "idcall", "copy")
		addc("closureret", "closureparam", "idcall", "retstruct", "ifdiamond")
		addc("loopphi", "idcall", "idcall", "idcall", "concat", "idcall", "structfield")
		b := &gen.Batch{Chains: chains}
		dir := filepath.Join(run.Scratch, "genfixed")
		files := b.Files()
		if err := gen.WriteProgram(dir, files); err != nil {
			run.Inconclusive(err.Error())
		} else {
			for _, depth := range []int{0, 8, 10, 12, 14, 16} {
				for _, od := range []bool{false, true} {
					c := ChainCfg{Name: "fs", FieldSens: true, Rewrites: true, OnDemand: od}
					y := strings.ReplaceAll(c.YAML(), `"^Sink[SR2]?$"`, `"^(Sink[SR2]?|Nop2)$"`)
					if depth > 0 {
						y = strings.Replace(y, "options:\n", fmt.Sprintf("options:\n  unsafe-max-depth: %d\n", depth), 1)
					}
					progs = append(progs, detProgram{Name: fmt.Sprintf("genfixed-d%d-od%d", depth, b2i(od)), Dir: dir, YAML: y, OrigDir: dir, Files: files, Batch: b})
				}
			}
		}
	}
	addReal := func(sub string, names []string, bt bool) {
		for _, d := range realTaintPrograms(sub) {
			ok := len(names) == 0
			for _, n := range names {
				if filepath.Base(d) == n {
					ok = true
				}
			}
			if !ok {
				continue
			}
			data, err := os.ReadFile(filepath.Join(d, "config.yaml"))
			if err != nil {
				continue
			}
			progs = append(progs, detProgram{Name: fmt.Sprintf("repo-%s-%s-bt%d", sub, filepath.Base(d), b2i(bt)), Dir: d, YAML: string(data), OrigDir: d, Backtrace: bt})
		}
	}
	if tier == "thorough" {
		addReal("taint", []string{"basic", "closures", "globals", "interfaces", "fields", "parameters", "defers", "tuples", "selects", "validators"}, false)
		addReal("backtrace", []string{"closures", "backtrace", "basic", "globals", "fields", "interfaces"}, true)
	} else if tier != "smoke" {
		addReal("taint", []string{"closures", "globals"}, false)
		addReal("backtrace", []string{"closures", "backtrace"}, true)
	}
	var mu sync.Mutex
	ordersSeen := map[string]map[string]bool{}
	totalRuns := 0
	core.Parallel(len(progs), 6, func(pi int) {
		p := progs[pi]
		work := filepath.Join(run.Scratch, "work-"+p.Name)
		_ = os.MkdirAll(work, 0o755)
		y, err := deriveConfig(p.YAML, p.OrigDir, work, map[string]any{})
		if err != nil {
			run.Inconclusive(p.Name + ": " + err.Error())
			return
		}
		cp := filepath.Join(work, "cfg.yaml")
		_ = os.WriteFile(cp, []byte(y), 0o644)
		var all []DetRun
		var tags []string
		for k := 0; k < procs; k++ {
			gmp := gmps[k%len(gmps)]
			job := &DetJob{Dir: p.Dir, Config: cp, Repeats: repeats, Backtrace: p.Backtrace, YieldSeed: run.SeedV*100 + int64(k), Out: filepath.Join(work, fmt.Sprintf("out-%d.json", k))}
			jf := filepath.Join(work, fmt.Sprintf("job-%d.json", k))
			core.WriteJSON(jf, job)
			cr := SpawnWorker("det", jf, 0, fmt.Sprintf("GOMAXPROCS=%d", gmp))
			if cr.Status != "ok" {
				data, _ := os.ReadFile(cr.LogFile)
				if cr.Status == "panic" {
					// a crash is identified by where it happens, as in C01/C03 (the known on-demand backtrace crash of
					// the pinned tree can hit any generated program)
					sig := "analyzer-panic:" + crashSignature(string(data))
					if !run.IsKnown(sig) {
						run.Violation(sig, p.Name+": analysis crashed: "+tailStr(string(data), 3000), map[string]string{"log.txt": tailStr(string(data), 20000)})
					}
				} else {
					run.Inconclusive(p.Name + ": worker " + cr.Status)
				}
				return
			}
			var res DetResult
			if err := core.ReadJSON(job.Out, &res); err != nil {
				run.Inconclusive(p.Name + ": " + err.Error())
				return
			}
			if strings.HasPrefix(res.Err, "load:") && strings.HasPrefix(p.Name, "repo-") {
				return
			}
			if res.Err != "" {
				run.Inconclusive(p.Name + ": " + res.Err)
				return
			}
			for i, dr := range res.Runs {
				all = append(all, dr)
				tags = append(tags, fmt.Sprintf("process %d (GOMAXPROCS=%d) repetition %d", k, gmp, i))
			}
		}
		mu.Lock()
		totalRuns += len(all)
		if ordersSeen[p.Name] == nil {
			ordersSeen[p.Name] = map[string]bool{}
		}
		for _, dr := range all {
			if dr.Order != "" {
				ordersSeen[p.Name][dr.Order] = true
			}
		}
		mu.Unlock()
		if len(all) < 2 {
			return
		}
		run.Eval(len(all))
		canon := func(dr DetRun) []string {
			var l []string
			for _, s := range dr.Flows {
				l = append(l, "F "+s)
			}
			for _, s := range dr.Escapes {
				l = append(l, "E "+s)
			}
			for _, s := range dr.Endpoints {
				l = append(l, "T "+s)
			}
			sort.Strings(l)
			return l
		}
		base := canon(all[0])
		if len(base) > 0 {
			run.Distinct(p.Name)
		}
		bs := map[string]bool{}
		for _, s := range base {
			bs[s] = true
		}
		for i := 1; i < len(all); i++ {
			cur := canon(all[i])
			cs := map[string]bool{}
			for _, s := range cur {
				cs[s] = true
			}
			onlyBase, onlyCur := setDiff(bs, cs), setDiff(cs, bs)
			if len(onlyBase) == 0 && len(onlyCur) == 0 {
				continue
			}
			kind := "taint"
			if p.Backtrace {
				kind = "backtrace"
			}
			sig := "nondeterministic:" + kind + ":" + p.Name
			if p.Batch != nil {
				sig = "nondeterministic:" + kind + ":generated"
			}
			if run.IsKnown(sig) {
				break
			}
			files := map[string]string{"cfg.yaml": y, "program.txt": p.Dir,
				"run_a.txt": tags[0] + "\n" + strings.Join(base, "\n"), "run_b.txt": tags[i] + "\n" + strings.Join(cur, "\n")}
			if p.Files != nil {
				for n, c := range withRT(p.Files) {
					files[n] = c
				}
			}
			run.Violation(sig, fmt.Sprintf("program %s: %s and %s report different result sets: only in the first %v; only in the second %v", p.Name, tags[0], tags[i], firstN(onlyBase, 3), firstN(onlyCur, 3)), files)
			break
		}
		if pi == 0 {
			run.Sample(map[string]any{"program": p.Name, "runs_compared": len(all), "result_size": len(base), "first": firstN(base, 3)})
		}
	})
	distinctOrders := 0
	for _, m := range ordersSeen {
		distinctOrders += len(m)
	}
	run.Cov["programs"] = len(progs)
	run.Cov["analysis_runs_compared"] = totalRuns
	run.Cov["distinct_entry_point_visiting_orders_seen"] = distinctOrders
	run.Cov["gomaxprocs"] = gmps
	run.Assumptions = append(run.Assumptions, "each fresh process re-randomises map iteration; GOMAXPROCS and seeded yields at the parallel-worker hook vary the schedule of the summary pass; max-alarms is never set")
	run.Finish("exploration", "every program is analysed in several fresh processes x in-process repetitions x GOMAXPROCS values with seeded yields at hook sites; canonical (source,sink) sets, escape sets and backtrace (entry, origin) sets must be identical across all runs; "+
		"distinct non-trivial = programs with a non-empty result; the number of distinct entry-point visiting orders actually observed is reported")
}
