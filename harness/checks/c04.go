package checks

import (
	"fmt"
	"os"
	"path/filepath"
	"regexp"
	"sort"
	"strings"

	"verif/harness/core"
	"verif/harness/gen"
)

// c04Cand is one candidate function and the way it is called.
type c04Cand struct {
	N     int
	Pkg   string // package path
	Name  string // function / method name
	Recv  string // receiver type name ("" for plain functions)
	Ptr   bool   // pointer receiver
	Iface string // package path of the interface the call goes through ("" if not an invoke)
	Form  string // direct funcval methodvalue methodexpr closure defer invoke
	// PerRole: the source-role and the sink-role test call two different functions (Name + "Source" / "Sink")
	PerRole bool
}

func (c c04Cand) realName(role string) string {
	if !c.PerRole {
		return c.Name
	}
	if role == "source" {
		return c.Name + "Source"
	}
	return c.Name + "Sink"
}

type c04Pattern struct {
	Name     string
	Package  string
	Method   string
	Receiver string
	Context  string
}

func pkgAlias(p string) string {
	switch p {
	case "vprog":
		return ""
	case "vprog/lib":
		return "lib."
	case "vprog/lib/sub":
		return "sub."
	case "vprog/libx":
		return "libx."
	}
	return "?"
}

func c04Candidates() []c04Cand {
	var out []c04Cand
	n := 1
	add := func(c c04Cand) { c.N = n; n++; out = append(out, c) }
	pkgs := []string{"vprog", "vprog/lib", "vprog/lib/sub", "vprog/libx"}
	for _, p := range pkgs {
		for _, name := range []string{"Fetch", "FetchAll", "Load"} {
			add(c04Cand{Pkg: p, Name: name, Form: "direct"})
		}
		add(c04Cand{Pkg: p, Name: "Fetch", Form: "funcval"})
		add(c04Cand{Pkg: p, Name: "Fetch", Form: "funcvalphiA"})
		add(c04Cand{Pkg: p, Name: "Fetch", Form: "funcvalphiB"})
		// candidates that are referenced nowhere else, one function per role: the order in which the pointer
		// analysis meets the bound method and the candidate is then fixed by the form (A: bound method first,
		// B: candidate first), whatever else the program contains
		add(c04Cand{Pkg: p, Name: "FetchLateA", Form: "funcvalphiA", PerRole: true})
		add(c04Cand{Pkg: p, Name: "FetchLateB", Form: "funcvalphiB", PerRole: true})
		add(c04Cand{Pkg: p, Name: "Fetch", Form: "closure"})
		add(c04Cand{Pkg: p, Name: "Fetch", Form: "defer"})
		add(c04Cand{Pkg: p, Name: "Fetch", Recv: "Store", Form: "direct"})
		add(c04Cand{Pkg: p, Name: "Load", Recv: "Store", Form: "direct"})
		add(c04Cand{Pkg: p, Name: "Fetch", Recv: "Cache", Ptr: true, Form: "direct"})
		add(c04Cand{Pkg: p, Name: "Fetch", Recv: "Store", Form: "methodvalue"})
		add(c04Cand{Pkg: p, Name: "Fetch", Recv: "Store", Form: "methodexpr"})
		add(c04Cand{Pkg: p, Name: "Fetch", Recv: "Cache", Ptr: true, Form: "defer"})
		add(c04Cand{Pkg: p, Name: "Fetch", Recv: "Store", Iface: p, Form: "invoke"})
	}
	// interface declared in one package, implementation in another
	add(c04Cand{Pkg: "vprog", Name: "Fetch", Recv: "Store", Iface: "vprog/lib", Form: "invoke"})
	add(c04Cand{Pkg: "vprog/lib", Name: "Fetch", Recv: "Store", Iface: "vprog", Form: "invoke"})
	if false {
		_ = sort.Ints
	}
	return out
}

func c04Patterns() []c04Pattern {
	return []c04Pattern{
		{Name: "anchored-lib-fetch", Package: "^vprog/lib$", Method: "^Fetch$"},
		{Name: "unanchored-lib-fetch", Package: "vprog/lib", Method: "Fetch"},
		{Name: "substring-lib-load", Package: "lib", Method: "^Load$"},
		{Name: "main-only", Package: "^vprog$", Method: "^Fetch$"},
		{Name: "empty-package", Package: "", Method: "^FetchAll$"},
		{Name: "alt-suffix", Package: "sub$", Method: "Fetch|Load"},
		{Name: "group-alt", Package: "vprog/lib(x|/sub)$", Method: "^(Fetch|Load)$"},
		{Name: "charclass", Package: "^vprog/lib$", Method: "^F[a-z]+$"},
		{Name: "dot-star", Package: ".*", Method: "^Load$"},
		{Name: "no-match", Package: "^vprog/nothing$", Method: "Fetch"},
		{Name: "prefix-method", Package: "^vprog/libx$", Method: "^Fetch"},
		{Name: "receiver-store", Package: "^vprog/lib$", Method: "^Fetch$", Receiver: "^Store$"},
		{Name: "receiver-cache", Package: "vprog", Method: "^Fetch$", Receiver: "Cache"},
		{Name: "context-role", Package: "^vprog/lib$", Method: "^Fetch$", Context: "role_(1[0-9]|2[0-9])$"},
	}
}

func (p c04Pattern) yaml(role string) string {
	spec := func(indent string) string {
		var sb strings.Builder
		first := true
		kv := func(k, v string) {
			if v == "" {
				return
			}
			pre := indent + "  "
			if first {
				pre = indent + "- "
				first = false
			}
			fmt.Fprintf(&sb, "%s%s: %q\n", pre, k, v)
		}
		kv("package", p.Package)
		kv("method", p.Method)
		kv("receiver", p.Receiver)
		kv("context", p.Context)
		return sb.String()
	}
	var sb strings.Builder
	sb.WriteString("taint-tracking-problems:\n  - sources:\n")
	if role == "source" {
		sb.WriteString(spec("      "))
	} else {
		sb.WriteString("      - package: \"vprog/rt$\"\n        method: \"^Source$\"\n")
	}
	sb.WriteString("    sinks:\n")
	if role == "sink" {
		sb.WriteString(spec("      "))
	} else {
		sb.WriteString("      - package: \"vprog/rt$\"\n        method: \"^Sink$\"\n")
	}
	sb.WriteString("options:\n  log-level: 1\n")
	return sb.String()
}

// matches is the reference model: Go's own regexp (unanchored MatchString) on the identity of the function that
// is actually called, plus the enclosing function name for context.
func (p c04Pattern) matches(c c04Cand, role string) bool {
	m := func(pat, s string) bool {
		if pat == "" {
			return true
		}
		ok, _ := regexp.MatchString(pat, s)
		return ok
	}
	ctx := fmt.Sprintf("vprog.%s_role_%d", role, c.N)
	if c.Form == "closure" {
		ctx += "$1" // the call sits in the anonymous function
	}
	return m(p.Package, c.Pkg) && m(p.Method, c.realName(role)) && m(p.Receiver, c.Recv) && m(p.Context, ctx)
}

func renderC04(cands []c04Cand) map[string]string {
	pkgBody := map[string]*strings.Builder{}
	get := func(p string) *strings.Builder {
		if pkgBody[p] == nil {
			pkgBody[p] = &strings.Builder{}
		}
		return pkgBody[p]
	}
	declared := map[string]bool{}
	declare := func(p, key, code string) {
		if declared[p+"|"+key] {
			return
		}
		declared[p+"|"+key] = true
		get(p).WriteString(code + "\n\n")
	}
	var tests strings.Builder
	var calls []string
	for _, c := range cands {
		al := pkgAlias(c.Pkg)
		// declarations
		if c.Recv == "" {
			for _, role := range []string{"source", "sink"} {
				nm := c.realName(role)
				declare(c.Pkg, "f:"+nm, fmt.Sprintf("// %s is a candidate function.\nfunc %s(s string) string { return s }", nm, nm))
			}
		} else {
			declare(c.Pkg, "t:"+c.Recv, fmt.Sprintf("// %s is a candidate receiver type.\ntype %s struct{ N int }", c.Recv, c.Recv))
			star := ""
			if c.Ptr {
				star = "*"
			}
			declare(c.Pkg, "m:"+c.Recv+"."+c.Name, fmt.Sprintf("// %s is a candidate method.\nfunc (r %s%s) %s(s string) string { return s }", c.Name, star, c.Recv, c.Name))
		}
		if c.Iface != "" {
			declare(c.Iface, "i:Getter", "// Getter is the interface candidates are invoked through.\ntype Getter interface{ Fetch(string) string }")
		}
		recvExpr := ""
		if c.Recv != "" {
			recvExpr = fmt.Sprintf("%s%s{}", al, c.Recv)
			if c.Ptr {
				recvExpr = "(&" + recvExpr + ")"
			}
		}
		for _, role := range []string{"source", "sink"} {
			if role == "source" && c.Form == "defer" {
				continue
			}
			fn := fmt.Sprintf("%s_role_%d", role, c.N)
			arg := "\"k\""
			if role == "sink" {
				arg = "y"
			}
			var pre, call string
			target := al + c.realName(role)
			if c.Recv != "" {
				target = recvExpr + "." + c.Name
			}
			switch c.Form {
			case "direct":
				call = fmt.Sprintf("%s(%s)", target, arg)
			case "funcval":
				pre = fmt.Sprintf("\tf := pick%d_%s(%s)\n", c.N, role, target)
				tests.WriteString(fmt.Sprintf("func pick%d_%s(f func(string) string) func(string) string { return f }\n\n", c.N, role))
				call = fmt.Sprintf("f(%s)", arg)
			case "funcvalphiA":
				// the function value may be a bound method of an unrelated type (a synthetic wrapper without package)
				// or the candidate; bound method first
				pre = fmt.Sprintf("\tbn := &Benign{}\n\tf := bn.Get\n\tif rt.Cond(0) {\n\t\tf = %s\n\t}\n", target)
				call = fmt.Sprintf("f(%s)", arg)
			case "funcvalphiB":
				pre = fmt.Sprintf("\tbn := &Benign{}\n\tf := pickB%d_%s(%s)\n\tif rt.Cond(1) {\n\t\tf = bn.Get\n\t}\n", c.N, role, target)
				tests.WriteString(fmt.Sprintf("func pickB%d_%s(f func(string) string) func(string) string { return f }\n\n", c.N, role))
				call = fmt.Sprintf("f(%s)", arg)
			case "closure":
				call = fmt.Sprintf("func(a string) string { return %s(a) }(%s)", target, arg)
			case "defer":
				call = fmt.Sprintf("%s(%s)", target, arg)
			case "methodvalue":
				pre = fmt.Sprintf("\tmv := %s.%s\n", recvExpr, c.Name)
				call = fmt.Sprintf("mv(%s)", arg)
			case "methodexpr":
				pre = fmt.Sprintf("\tme := %s%s.%s\n", al, c.Recv, c.Name)
				call = fmt.Sprintf("me(%s{}, %s)", al+c.Recv, arg)
			case "invoke":
				pre = fmt.Sprintf("\tvar g %sGetter = %s\n", pkgAlias(c.Iface), recvExpr)
				call = fmt.Sprintf("g.Fetch(%s)", arg)
			}
			fmt.Fprintf(&tests, "func %s() {\n", fn)
			if role == "source" {
				tests.WriteString(pre)
				fmt.Fprintf(&tests, "\tx := %s\n\trt.Sink(%d, x)\n", call, c.N)
			} else {
				fmt.Fprintf(&tests, "\ty := rt.Source(%d)\n", c.N)
				tests.WriteString(pre)
				if c.Form == "defer" {
					fmt.Fprintf(&tests, "\tdefer %s\n", call)
				} else {
					fmt.Fprintf(&tests, "\t_ = %s\n", call)
				}
			}
			tests.WriteString("}\n\n")
			calls = append(calls, fn)
		}
	}
	var m strings.Builder
	m.WriteString("package main\n\nimport (\n\t\"vprog/lib\"\n\t\"vprog/lib/sub\"\n\t\"vprog/libx\"\n\t\"vprog/rt\"\n)\n\n")
	m.WriteString("// Benign is an unrelated type whose bound method shares the candidates' signature.\ntype Benign struct{ p string }\n\n// Get is never a candidate.\nfunc (b *Benign) Get(s string) string { return b.p }\n\n")
	m.WriteString(get("vprog").String())
	m.WriteString(tests.String())
	m.WriteString("var _ = lib.Fetch\nvar _ = sub.Fetch\nvar _ = libx.Fetch\n\nfunc main() {\n\tdefer rt.Done()\n")
	for _, c := range calls {
		fmt.Fprintf(&m, "\t%s()\n", c)
	}
	m.WriteString("}\n")
	files := map[string]string{"main.go": m.String()}
	for p, b := range pkgBody {
		if p == "vprog" {
			continue
		}
		dir := strings.TrimPrefix(p, "vprog/")
		name := filepath.Base(dir)
		files[dir+"/"+name+".go"] = fmt.Sprintf("// Package %s holds candidate functions.\npackage %s\n\n%s", name, name, b.String())
	}
	return files
}

// C04 — every code location matching a specification is identified, and only those.
func C04(tier string) {
	run := core.NewRun("C04", tier)
	cands := c04Candidates()
	pats := c04Patterns()
	dir := filepath.Join(run.Scratch, "prog")
	files := renderC04(cands)
	if err := gen.WriteProgram(dir, files); err != nil {
		run.Inconclusive(err.Error())
		run.Finish("exploration", "")
	}
	if err := gen.VetStub(dir); err != nil {
		run.Inconclusive("generator bug: " + err.Error())
		run.Finish("exploration", "")
	}
	sites := gen.ScanSites(files)
	job := &TaintJob{Dir: dir, Out: filepath.Join(dir, "out.json")}
	for _, p := range pats {
		for _, role := range []string{"source", "sink"} {
			for _, od := range []bool{false, true} {
				if od && tier != "thorough" && role == "source" {
					continue
				}
				name := fmt.Sprintf("%s/%s/od%d", p.Name, role, b2i(od))
				y := p.yaml(role)
				if od {
					y = strings.Replace(y, "options:\n", "options:\n  summarize-on-demand: true\n", 1)
				}
				cp := filepath.Join(dir, "cfg-"+strings.ReplaceAll(name, "/", "_")+".yaml")
				_ = os.WriteFile(cp, []byte(y), 0o644)
				job.Runs = append(job.Runs, TaintRunSpec{Name: name, Config: cp, Rewrites: true})
			}
		}
	}
	jf := filepath.Join(dir, "job.json")
	core.WriteJSON(jf, job)
	cr := SpawnWorker("taint", jf, 0)
	if cr.Status != "ok" {
		data, _ := os.ReadFile(cr.LogFile)
		if cr.Status == "panic" {
			run.Violation("analyzer-panic", "analysis crashed: "+tailStr(string(data), 3000), withRT(files))
		} else {
			run.Inconclusive("worker " + cr.Status + ": " + tailStr(string(data), 300))
		}
		run.Finish("exploration", "")
	}
	var res TaintJobResult
	if err := core.ReadJSON(job.Out, &res); err != nil || res.Err != "" {
		run.Inconclusive(fmt.Sprintf("worker result: %v %s", err, res.Err))
		run.Finish("exploration", "")
	}
	matched, unmatched := 0, 0
	for name, reps := range res.Results {
		parts := strings.Split(name, "/")
		var pat c04Pattern
		for _, p := range pats {
			if p.Name == parts[0] {
				pat = p
			}
		}
		role := parts[1]
		hitSink := map[int]bool{} // source role: some flow reaches rt.Sink(n)
		hitSrc := map[int]bool{}  // sink role: rt.Source(n) reaches some sink
		for _, f := range reps[0].Flows {
			if id, ok := sites.SnkLine[f.Snk.String()]; ok {
				hitSink[id] = true
			}
			if id, ok := sites.SrcLine[f.Src.String()]; ok {
				hitSrc[id] = true
			}
		}
		for _, c := range cands {
			if role == "source" && c.Form == "defer" {
				continue
			}
			if pat.Receiver != "" && c.Form == "invoke" {
				continue // declared type vs possible callee is ambiguous in the statement: not asserted
			}
			run.Eval(1)
			want := pat.matches(c, role)
			got := hitSink[c.N]
			if role == "sink" {
				got = hitSrc[c.N]
			}
			if want {
				matched++
				run.Distinct(fmt.Sprintf("%s/%s/%s/%s/%v", pat.Name, role, c.Form, c.Pkg, c.Recv != ""))
			} else {
				unmatched++
			}
			if want == got {
				continue
			}
			kind := "not-identified"
			if got {
				kind = "wrongly-identified"
			}
			recv := "func"
			if c.Recv != "" {
				recv = "method"
			}
			if c.Iface != "" && c.Iface != c.Pkg {
				recv = "method-iface-elsewhere"
			}
			sig := fmt.Sprintf("%s:%s:%s:%s:%s", kind, role, c.Form, recv, patClass(pat))
			if run.IsKnown(sig) {
				continue
			}
			fl := withRT(files)
			fl["cfg.yaml"] = pat.yaml(role)
			run.Violation(sig, fmt.Sprintf("pattern %q {package:%q method:%q receiver:%q context:%q} as %s (%s): candidate #%d %s.%s (receiver %q, form %s, interface in %q) %s by the reference regexp, but the tool %s it",
				pat.Name, pat.Package, pat.Method, pat.Receiver, pat.Context, role, parts[2], c.N, c.Pkg, c.Name, c.Recv, c.Form, c.Iface,
				map[bool]string{true: "is matched", false: "is not matched"}[want], map[bool]string{true: "identified", false: "did not identify"}[got]), fl)
		}
	}
	fm, fu := c04Fields(run, tier)
	run.Cov["field/alloc_obligations_expecting_identification"] = fm
	run.Cov["field/alloc_obligations_expecting_no_identification"] = fu
	run.Cov["candidates"] = len(cands)
	run.Cov["patterns"] = len(pats)
	run.Cov["obligations_expecting_identification"] = matched
	run.Cov["obligations_expecting_no_identification"] = unmatched
	run.Sample(map[string]any{"pattern": pats[1], "candidate": cands[0]})
	run.Assumptions = append(run.Assumptions, "identification is observed through the tool's public output: a call is a source iff a flow reaches the probe sink placed after it, a sink iff the probe source placed before it reaches it",
		"reference model: regexp.MatchString (unanchored) on the package path / name / receiver type name of the function actually called and on the enclosing function's full name; field reads and allocations are covered by a second program (same oracle: identified IFF the identifier {package name of the declared type, type name with * for pointers, field name, enclosing function} matches), each configuration repeated; store and channel-receive kinds are not covered")
	run.Finish("exploration", "cross product of candidate functions (4 package layouts x function/value-method/pointer-method/interface method x call forms direct, function value, closure, defer, method value, method expression, invoke) and specification patterns (anchored, unanchored, substring of a longer path, alternation, groups, character class, empty package, receiver, context), each as source and as sink, eager and on-demand; "+
		"distinct non-trivial = (pattern, role, form, package, method?) combinations the reference model says match; oracle: identified IFF matched")
}

func patClass(p c04Pattern) string {
	switch {
	case p.Receiver != "":
		return "receiver"
	case p.Context != "":
		return "context"
	}
	return "pkg-method"
}
