package checks

import (
	"fmt"
	"go/types"
	"os"
	"path/filepath"
	"sort"
	"strings"
	"sync"

	"github.com/awslabs/ar-go-tools/analysis/dataflow"
	"github.com/awslabs/ar-go-tools/analysis/summaries"
	"golang.org/x/tools/go/ssa"
	"golang.org/x/tools/go/ssa/ssautil"

	"verif/harness/ana"
	"verif/harness/core"
	"verif/harness/gen"
)

// stdImports is the set of standard packages loaded to resolve summary-table entries.
var stdImports = []string{"bufio", "bytes", "container/heap", "container/list", "context", "crypto/aes", "crypto/cipher", "crypto/rand", "crypto/sha1",
	"crypto/tls", "crypto/x509", "encoding/asn1", "encoding/base64", "encoding/binary", "encoding/gob", "encoding/hex", "encoding/json", "encoding/xml", "errors", "flag", "fmt", "io", "io/fs", "io/ioutil",
	"log", "maps", "math", "math/big", "math/rand", "net", "net/http", "net/url", "os", "os/exec", "os/signal", "path", "path/filepath", "reflect", "regexp", "runtime",
	"slices", "sort", "strconv", "strings", "sync", "sync/atomic", "syscall", "text/template", "time", "unicode", "unicode/utf8", "unicode/utf16"}

// StdEntry is one resolvable summary-table entry.
type StdEntry struct {
	Key        string   `json:"key"`
	Pkg        string   `json:"pkg"`
	Name       string   `json:"name"`
	Recv       string   `json:"recv"` // receiver type string with package qualifier, "" for functions
	Params     []string `json:"params"`
	Variadic   bool     `json:"variadic"`
	Results    []string `json:"results"`
	Exported   bool     `json:"exported"`
	Args       [][]int  `json:"args"`
	Rets       [][]int  `json:"rets"`
	Misaligned []string `json:"misaligned"` // positions of the table that do not exist in the signature
	NotEdges   []string `json:"not_edges"`  // in-range positions that did not become edges of the instantiated summary
}

// StdTableResult is the stage-1 answer.
type StdTableResult struct {
	Entries []StdEntry `json:"entries"`
	Err     string     `json:"err,omitempty"`
}

func init() {
	extraWorkers["stdtable"] = func(jobFile string) {
		var job struct{ Dir, Out string }
		if err := core.ReadJSON(jobFile, &job); err != nil {
			fmt.Fprintln(os.Stderr, err)
			os.Exit(2)
		}
		res := &StdTableResult{}
		l, err := ana.Load(job.Dir, false)
		if err != nil {
			res.Err = "load: " + err.Error()
			core.WriteJSON(job.Out, res)
			return
		}
		qual := func(p *types.Package) string { return p.Path() }
		var fns []*ssa.Function
		for f := range ssautil.AllFunctions(l.Prog) {
			if _, ok := summaries.SummaryOfFunc(f); ok {
				fns = append(fns, f)
			}
		}
		sort.Slice(fns, func(i, j int) bool { return fns[i].String() < fns[j].String() })
		for _, f := range fns {
			sum, _ := summaries.SummaryOfFunc(f)
			e := StdEntry{Key: f.String(), Name: f.Name(), Args: sum.Args, Rets: sum.Rets}
			if f.Pkg != nil {
				e.Pkg = f.Pkg.Pkg.Path()
			}
			sig := f.Signature
			e.Variadic = sig.Variadic()
			if sig.Recv() != nil {
				e.Recv = types.TypeString(sig.Recv().Type(), qual)
			}
			for i := 0; i < sig.Params().Len(); i++ {
				e.Params = append(e.Params, types.TypeString(sig.Params().At(i).Type(), qual))
			}
			for i := 0; i < sig.Results().Len(); i++ {
				e.Results = append(e.Results, types.TypeString(sig.Results().At(i).Type(), qual))
			}
			if obj := f.Object(); obj != nil {
				e.Exported = obj.Exported()
			}
			np, nr := len(f.Params), sig.Results().Len()
			for i, ks := range sum.Args {
				for _, k := range ks {
					if i >= np || k >= np || i < 0 || k < 0 {
						e.Misaligned = append(e.Misaligned, fmt.Sprintf("Args[%d] lists %d but the function has %d parameters (receiver included)", i, k, np))
					}
				}
			}
			for i, js := range sum.Rets {
				for _, j := range js {
					if i >= np || j >= nr || i < 0 || j < 0 {
						e.Misaligned = append(e.Misaligned, fmt.Sprintf("Rets[%d] lists %d but the function has %d parameters and %d results", i, j, np, nr))
					}
				}
			}
			// instantiate the summary the way the tool does and check that every in-range position became an edge
			if sg := dataflow.NewPredefinedSummary(f, dataflow.GetUniqueFunctionID()); sg != nil && len(f.Params) > 0 {
				paramNode := func(i int) *dataflow.ParamNode {
					if i < 0 || i >= len(f.Params) {
						return nil
					}
					return sg.Params[f.Params[i]]
				}
				for i, ks := range sum.Args {
					src := paramNode(i)
					for _, k := range ks {
						dst := paramNode(k)
						if src == nil || dst == nil {
							continue
						}
						if _, ok := src.Out()[dst]; !ok {
							e.NotEdges = append(e.NotEdges, fmt.Sprintf("Args %d->%d", i, k))
						}
					}
				}
				for i, js := range sum.Rets {
					src := paramNode(i)
					if src == nil {
						continue
					}
					for _, j := range js {
						if j < 0 || j >= nr {
							continue
						}
						found := false
						for n := range src.Out() {
							if r, ok := n.(*dataflow.ReturnValNode); ok && r.Index() == j {
								found = true
							}
						}
						// functions without any return instruction (bodyless) have no return nodes: not a defect of the table
						if !found && len(sg.Returns) > 0 {
							e.NotEdges = append(e.NotEdges, fmt.Sprintf("Rets %d->%d", i, j))
						}
					}
				}
			}
			res.Entries = append(res.Entries, e)
		}
		core.WriteJSON(job.Out, res)
	}
}

// synth describes how to build a value of a type: Carrier (expression containing the marker expression $M, "" if the
// type cannot carry a marker) and Benign.
type synth struct {
	Carrier string
	Benign  string
	Imports []string
}

var synthTable = map[string]synth{
	"string":                 {Carrier: "$M", Benign: `"k"`},
	"[]byte":                 {Carrier: "[]byte($M)", Benign: `[]byte("k")`},
	"[]string":               {Carrier: "[]string{$M, \"k\"}", Benign: `[]string{"k"}`},
	"int":                    {Benign: "1"},
	"int64":                  {Benign: "int64(1)"},
	"uint":                   {Benign: "uint(1)"},
	"uint64":                 {Benign: "uint64(1)"},
	"float64":                {Benign: "1.5"},
	"bool":                   {Benign: "true"},
	"rune":                   {Benign: "rune('k')"},
	"int32":                  {Benign: "rune('k')"},
	"byte":                   {Benign: "byte('k')"},
	"uint8":                  {Benign: "byte('k')"},
	"error":                  {Carrier: "errors.New($M)", Benign: `errors.New("k")`, Imports: []string{"errors"}},
	"any":                    {Carrier: "any($M)", Benign: "any(1)"},
	"interface{}":            {Carrier: "any($M)", Benign: "any(1)"},
	"[]any":                  {Carrier: "[]any{$M}", Benign: "[]any{1}"},
	"[]interface{}":          {Carrier: "[]any{$M}", Benign: "[]any{1}"},
	"io.Reader":              {Carrier: "strings.NewReader($M)", Benign: `strings.NewReader("k")`, Imports: []string{"strings"}},
	"io.Writer":              {Benign: "new(bytes.Buffer)", Imports: []string{"bytes"}},
	"*bytes.Buffer":          {Carrier: "bytes.NewBufferString($M)", Benign: `bytes.NewBufferString("k")`, Imports: []string{"bytes"}},
	"*strings.Reader":        {Carrier: "strings.NewReader($M)", Benign: `strings.NewReader("k")`, Imports: []string{"strings"}},
	"*strings.Builder":       {Benign: "new(strings.Builder)", Imports: []string{"strings"}},
	"*bufio.Reader":          {Carrier: "bufio.NewReader(strings.NewReader($M))", Benign: `bufio.NewReader(strings.NewReader("k"))`, Imports: []string{"bufio", "strings"}},
	"*bufio.Scanner":         {Carrier: "bufio.NewScanner(strings.NewReader($M))", Benign: `bufio.NewScanner(strings.NewReader("k"))`, Imports: []string{"bufio", "strings"}},
	"*bufio.Writer":          {Benign: "bufio.NewWriter(new(bytes.Buffer))", Imports: []string{"bufio", "bytes"}},
	"net/url.Values":         {Carrier: "url.Values{\"k\": []string{$M}}", Benign: `url.Values{"k": []string{"v"}}`, Imports: []string{"net/url"}},
	"*net/url.URL":           {Carrier: "&url.URL{Path: $M}", Benign: `&url.URL{Path: "k"}`, Imports: []string{"net/url"}},
	"net/http.Header":        {Carrier: "http.Header{\"K\": []string{$M}}", Benign: `http.Header{"K": []string{"v"}}`, Imports: []string{"net/http"}},
	"time.Duration":          {Benign: "time.Second", Imports: []string{"time"}},
	"context.Context":        {Carrier: "context.WithValue(context.Background(), ctxKey{}, $M)", Benign: "context.Background()", Imports: []string{"context"}},
	"*encoding/json.Decoder": {Carrier: "json.NewDecoder(strings.NewReader(\"\\\"\" + $M + \"\\\"\"))", Benign: `json.NewDecoder(strings.NewReader("1"))`, Imports: []string{"encoding/json", "strings"}},
	"*encoding/json.Encoder": {Benign: "json.NewEncoder(new(bytes.Buffer))", Imports: []string{"encoding/json", "bytes"}},
	"*regexp.Regexp":         {Benign: `regexp.MustCompile("k")`, Imports: []string{"regexp"}},
	"*strings.Replacer":      {Carrier: "strings.NewReplacer(\"k\", $M)", Benign: `strings.NewReplacer("a", "b")`, Imports: []string{"strings"}},
	"func(rune) bool":        {Benign: "func(r rune) bool { return false }"},
	"func(rune) rune":        {Benign: "func(r rune) rune { return r }"},
}

func shortType(t string) string {
	// "net/url.Values" -> "url.Values", "*encoding/json.Decoder" -> "*json.Decoder"
	star := ""
	for strings.HasPrefix(t, "*") || strings.HasPrefix(t, "[]") {
		if strings.HasPrefix(t, "*") {
			star += "*"
			t = t[1:]
		} else {
			star += "[]"
			t = t[2:]
		}
	}
	if i := strings.LastIndex(t, "/"); i >= 0 {
		t = t[i+1:]
	}
	return star + t
}

func lookupSynth(t string) (synth, bool) {
	if s, ok := synthTable[t]; ok {
		return s, true
	}
	if s, ok := synthTable[shortType(t)]; ok {
		return s, true
	}
	return synth{}, false
}

type stdCall struct {
	E      StdEntry
	Idx    int
	Types  []string // receiver first
	Synths []synth
}

// renderStdCalls renders one test function per (entry, carrier argument).
func renderStdCalls(calls []stdCall) (map[string]string, map[int]string) {
	imports := map[string]bool{"vprog/rt": true}
	var body strings.Builder
	var tests []string
	desc := map[int]string{}
	for _, c := range calls {
		for i := range c.Types {
			if c.Synths[i].Carrier == "" {
				continue
			}
			sid := c.Idx*10 + i
			desc[sid] = fmt.Sprintf("%s arg%d", c.E.Key, i)
			name := fmt.Sprintf("std%d_%d", c.Idx, i)
			tests = append(tests, name)
			fmt.Fprintf(&body, "// %s, tainted position %d\nfunc %s() {\n", c.E.Key, i, name)
			var args []string
			for p := range c.Types {
				s := c.Synths[p]
				for _, im := range s.Imports {
					imports[im] = true
				}
				expr := s.Benign
				if p == i {
					expr = strings.ReplaceAll(s.Carrier, "$M", fmt.Sprintf("rt.Source(%d)", sid))
				}
				fmt.Fprintf(&body, "\ta%d := %s\n", p, expr)
				args = append(args, fmt.Sprintf("a%d", p))
			}
			call := ""
			pkgName := c.E.Pkg[strings.LastIndex(c.E.Pkg, "/")+1:]
			imports[c.E.Pkg] = true
			callArgs := args
			if c.E.Recv != "" {
				callArgs = args[1:]
			}
			if c.E.Variadic && len(callArgs) > 0 && strings.HasPrefix(c.Types[len(c.Types)-1], "[]") {
				callArgs = append(append([]string{}, callArgs[:len(callArgs)-1]...), callArgs[len(callArgs)-1]+"...")
			}
			if c.E.Recv != "" {
				call = fmt.Sprintf("a0.%s(%s)", c.E.Name, strings.Join(callArgs, ", "))
			} else {
				call = fmt.Sprintf("%s.%s(%s)", pkgName, c.E.Name, strings.Join(callArgs, ", "))
			}
			var rs []string
			for j := range c.E.Results {
				rs = append(rs, fmt.Sprintf("r%d", j))
			}
			if len(rs) > 0 {
				fmt.Fprintf(&body, "\t%s := %s\n", strings.Join(rs, ", "), call)
			} else {
				fmt.Fprintf(&body, "\t%s\n", call)
			}
			for j := range rs {
				fmt.Fprintf(&body, "\trt.Sink(%d, r%d)\n", sid*100+j, j)
			}
			for p := range c.Types {
				if p == i {
					continue
				}
				pointerLike := strings.HasPrefix(c.Types[p], "*") || strings.HasPrefix(c.Types[p], "[]") || strings.Contains(c.Types[p], "io.") || strings.Contains(c.Types[p], "Values") || strings.Contains(c.Types[p], "Header")
				if pointerLike {
					fmt.Fprintf(&body, "\trt.Sink(%d, a%d)\n", sid*100+10+p, p)
				} else {
					fmt.Fprintf(&body, "\t_ = a%d\n", p)
				}
			}
			body.WriteString("}\n\n")
		}
	}
	var m strings.Builder
	m.WriteString("package main\n\nimport (\n")
	for _, im := range sortedKeysStr(imports) {
		fmt.Fprintf(&m, "\t%q\n", im)
	}
	m.WriteString(")\n\ntype ctxKey struct{}\n\nvar _ = ctxKey{}\n\n")
	m.WriteString(body.String())
	m.WriteString("func main() {\n\tdefer rt.Done()\n")
	for _, t := range tests {
		fmt.Fprintf(&m, "\trt.Try(%s)\n", t)
	}
	m.WriteString("}\n")
	return map[string]string{"main.go": m.String()}, desc
}

func sortedKeysStr(m map[string]bool) []string {
	var l []string
	for k := range m {
		l = append(l, k)
	}
	sort.Strings(l)
	return l
}

// C09 — built-in standard-library summaries over-approximate the real functions.
func C09(tier string) {
	run := core.NewRun("C09", tier)
	// stage 1: resolve the table against a program that imports the relevant standard packages
	dir := filepath.Join(run.Scratch, "stdall")
	var sb strings.Builder
	sb.WriteString("package main\n\nimport (\n")
	for _, im := range stdImports {
		fmt.Fprintf(&sb, "\t_ %q\n", im)
	}
	sb.WriteString(")\n\nfunc main() {}\n")
	if err := gen.WriteProgram(dir, map[string]string{"main.go": sb.String()}); err != nil {
		run.Inconclusive(err.Error())
		run.Finish("exploration", "")
	}
	jf := filepath.Join(dir, "job.json")
	out := filepath.Join(dir, "out.json")
	core.WriteJSON(jf, map[string]string{"Dir": dir, "Out": out})
	cr := SpawnWorker("stdtable", jf, 0)
	var tab StdTableResult
	if cr.Status != "ok" || core.ReadJSON(out, &tab) != nil || tab.Err != "" {
		data, _ := os.ReadFile(cr.LogFile)
		run.Inconclusive("stdtable worker failed: " + tab.Err + tailStr(string(data), 300))
		run.Finish("exploration", "")
	}
	misaligned := 0
	for _, e := range tab.Entries {
		run.Eval(1)
		if len(e.Misaligned) > 0 {
			misaligned++
		}
		for _, ne := range e.NotEdges {
			sig := "not-instantiated:" + e.Key
			if !run.IsKnown(sig) {
				run.Violation(sig, fmt.Sprintf("summary-table entry %s: position %s is within the function's signature but is not an edge of the instantiated summary graph", e.Key, ne), map[string]string{})
			}
		}
	}
	// stage 2: execute synthesised calls
	var calls []stdCall
	idx := 1
	skipped := 0
	for _, e := range tab.Entries {
		if !e.Exported || strings.Contains(e.Pkg, "internal") || e.Name == "init" {
			skipped++
			continue
		}
		if e.Recv != "" {
			// method must be exported on an exported, constructible receiver
			if _, ok := lookupSynth(e.Recv); !ok {
				skipped++
				continue
			}
		}
		var typs []string
		if e.Recv != "" {
			typs = append(typs, e.Recv)
		}
		typs = append(typs, e.Params...)
		ok := true
		var ss []synth
		for _, t := range typs {
			s, found := lookupSynth(t)
			if !found {
				ok = false
				break
			}
			ss = append(ss, s)
		}
		hasCarrier := false
		for _, s := range ss {
			if s.Carrier != "" {
				hasCarrier = true
			}
		}
		if !ok || !hasCarrier || dangerousStd[e.Key] || !lightStd[e.Pkg] {
			skipped++
			continue
		}
		calls = append(calls, stdCall{E: e, Idx: idx, Types: typs, Synths: ss})
		idx++
	}
	sort.SliceStable(calls, func(i, j int) bool { return calls[i].E.Pkg < calls[j].E.Pkg })
	if tier == "smoke" && len(calls) > 90 {
		// quick: all misaligned entries + a seeded sample
		r := core.NewRNG(run.SeedV, "c09")
		var sel []stdCall
		for _, c := range calls {
			if len(c.E.Misaligned) > 0 || r.Intn(len(calls)) < 80 {
				sel = append(sel, c)
			}
		}
		calls = sel
	}
	per := 30
	var mu sync.Mutex
	observedFlows := 0
	nprog := (len(calls) + per - 1) / per
	core.Parallel(nprog, 6, func(pi int) {
		lo, hi := pi*per, (pi+1)*per
		if hi > len(calls) {
			hi = len(calls)
		}
		cs := calls[lo:hi]
		pdir := filepath.Join(run.Scratch, fmt.Sprintf("calls%02d", pi))
		files, desc := renderStdCalls(cs)
		if err := gen.WriteProgram(pdir, files); err != nil {
			run.Inconclusive(err.Error())
			return
		}
		bin, err := gen.BuildNative(pdir)
		if err != nil {
			run.Inconclusive("generator produced a program that does not build: " + tailStr(err.Error(), 600))
			return
		}
		evs, err := gen.RunNative(bin, "", "", filepath.Join(pdir, "events.log"))
		_ = os.Remove(bin)
		if err != nil {
			run.Inconclusive("native run failed: " + tailStr(err.Error(), 300))
			return
		}
		observed := map[Pair]bool{}
		for _, ev := range evs {
			if ev.Kind == "K" {
				for _, s := range ev.Raw {
					if ev.ID/100 == s {
						observed[Pair{s, ev.ID}] = true
					}
				}
			}
		}
		sites := gen.ScanSites(files)
		job := &TaintJob{Dir: pdir, Out: filepath.Join(pdir, "taint.out.json")}
		for _, c := range []ChainCfg{{Name: "eager", Rewrites: true}, {Name: "ondemand", OnDemand: true, Rewrites: true}} {
			if c.OnDemand && tier != "thorough" {
				continue
			}
			cp := filepath.Join(pdir, "cfg-"+c.Name+".yaml")
			_ = os.WriteFile(cp, []byte(c.YAML()), 0o644)
			job.Runs = append(job.Runs, TaintRunSpec{Name: c.Name, Config: cp, Rewrites: true})
		}
		jf := filepath.Join(pdir, "taint.job.json")
		core.WriteJSON(jf, job)
		cr := SpawnWorker("taint", jf, 0)
		var res TaintJobResult
		if cr.Status != "ok" || core.ReadJSON(job.Out, &res) != nil || res.Err != "" {
			data, _ := os.ReadFile(cr.LogFile)
			if cr.Status == "panic" {
				run.Violation("analyzer-panic", "analysis crashed on a std-call program: "+tailStr(string(data), 3000), withRT(files))
			} else {
				run.Inconclusive("taint worker " + cr.Status + " " + res.Err)
			}
			return
		}
		mu.Lock()
		observedFlows += len(observed)
		mu.Unlock()
		for cfg, reps := range res.Results {
			reported := map[Pair]bool{}
			for _, f := range reps[0].Flows {
				s, ok1 := sites.SrcLine[f.Src.String()]
				k, ok2 := sites.SnkLine[f.Snk.String()]
				if ok1 && ok2 {
					reported[Pair{s, k}] = true
				}
			}
			for p := range observed {
				target := "result " + fmt.Sprint(p.Snk%100)
				if p.Snk%100 >= 10 {
					target = "argument " + fmt.Sprint(p.Snk%100-10)
				}
				run.Distinct(desc[p.Src] + "->" + target)
				if reported[p] {
					continue
				}
				key := strings.Fields(desc[p.Src])[0]
				sig := "lost-flow:" + key + ":" + strings.Fields(desc[p.Src])[1] + "->" + strings.ReplaceAll(target, " ", "")
				if run.IsKnown(sig) {
					continue
				}
				var one []stdCall
				for _, c := range cs {
					if c.E.Key == key {
						one = append(one, c)
					}
				}
				sf, _ := renderStdCalls(one)
				run.Violation(sig, fmt.Sprintf("%s: an execution moved the marker from %s to %s, but the flow is not reported (%s) when the predefined summary is applied", key, strings.Fields(desc[p.Src])[1], target, cfg), withRT(sf))
			}
		}
	})
	run.Cov["table_entries_resolved"] = len(tab.Entries)
	run.Cov["table_entries_with_positions_outside_the_signature"] = misaligned
	run.Cov["entries_executed"] = len(calls)
	run.Cov["entries_not_constructible"] = skipped
	run.Cov["observed_flows"] = observedFlows
	run.Cov["exhaustive"] = false
	if len(calls) > 0 {
		run.Sample(map[string]any{"entry": calls[0].E.Key, "types": calls[0].Types, "table_args": calls[0].E.Args, "table_rets": calls[0].E.Rets})
	}
	run.Assumptions = append(run.Assumptions, "marker containment in a result or in memory reachable from an argument after the call is an explicit flow through the real standard-library function",
		"only entries whose receiver/parameter types are in the value synthesiser's table are executed; integer-carried data is not tracked")
	run.Finish("exploration", "stage 1 (exhaustive over every table entry that resolves to a loaded function): every in-range position of the table must be an edge of the instantiated summary; "+
		"stage 2: for every entry with synthesisable argument types, a one-call program per marker-carrying argument is executed natively and analysed; every observed argument->result / argument->other-argument flow must be reported; "+
		"distinct non-trivial = (entry, argument, target) with an observed flow")
}

// lightStd lists the packages whose entries are executed: programs importing net/http, crypto/x509 ... take the
// analyzer many minutes and gigabytes each, which does not fit a check (stage 1 still covers their table entries).
var lightStd = map[string]bool{"strings": true, "bytes": true, "bufio": true, "fmt": true, "strconv": true, "errors": true, "io": true, "io/ioutil": true,
	"path": true, "path/filepath": true, "sort": true, "regexp": true, "encoding/json": true, "encoding/base64": true, "encoding/hex": true, "net/url": true,
	"unicode": true, "unicode/utf8": true, "context": true, "sync": true, "log": true, "container/list": true, "slices": true, "maps": true, "time": true}

// dangerousStd lists entries that must not be executed (side effects on the environment or blocking).
var dangerousStd = map[string]bool{
	"os.Exit": true, "os.Remove": true, "os.RemoveAll": true, "os.Rename": true, "os.Mkdir": true, "os.MkdirAll": true, "os.Chdir": true,
	"os.WriteFile": true, "os.Create": true, "os.OpenFile": true, "os.Setenv": true, "os.Unsetenv": true, "os/exec.Command": true,
	"log.Fatal": true, "log.Fatalf": true, "log.Fatalln": true, "log.Panic": true, "log.Panicf": true, "log.Panicln": true,
	"net.Dial": true, "net.Listen": true, "net/http.Get": true, "net/http.Post": true, "io/ioutil.WriteFile": true, "os.Truncate": true,
	"os.Chmod": true, "os.Chown": true, "os.Symlink": true, "os.Link": true, "syscall.Exit": true, "os.StartProcess": true,
}
