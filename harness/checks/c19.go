package checks

import (
	"encoding/json"
	"fmt"
	"os"
	"os/exec"
	"path/filepath"
	"regexp"
	"strconv"
	"strings"
	"sync"
	"time"

	"github.com/awslabs/ar-go-tools/analysis"
	"github.com/awslabs/ar-go-tools/analysis/maypanic"
	"golang.org/x/tools/go/packages"
	"golang.org/x/tools/go/ssa"

	"verif/harness/core"
	"verif/harness/gen"
)

// MayPanicJob asks the worker to run the may-panic analysis the way the CLI does.
type MayPanicJob struct {
	Dir     string   `json:"dir"`
	Exclude []string `json:"exclude"`
}

type mpLocation struct {
	Function string
	Filename string
	Line     int
	Column   int
}

type mpFinding struct {
	Description string
	GoRoutine   mpLocation
	Creators    []mpLocation
}

func init() {
	extraWorkers["maypanic"] = func(jobFile string) {
		var job MayPanicJob
		if err := core.ReadJSON(jobFile, &job); err != nil {
			fmt.Fprintln(os.Stderr, err)
			os.Exit(2)
		}
		cfg := &packages.Config{Mode: packages.LoadAllSyntax, Tests: false, Dir: job.Dir}
		cfg.Env = gen.GoEnv()
		prog, _, err := analysis.LoadProgram(analysis.LoadProgramOptions{PackageConfig: cfg, BuildMode: ssa.InstantiateGenerics, ApplyRewrites: true}, []string{"."})
		if err != nil {
			fmt.Fprintln(os.Stderr, "load:", err)
			os.Exit(2)
		}
		fmt.Println("MAYPANIC-JSON-BEGIN")
		maypanic.MayPanicAnalyzer(prog, job.Exclude, true)
		fmt.Println("MAYPANIC-JSON-END")
	}
}

func runMayPanic(run *core.Run, dir string, tag string, exclude []string) ([]mpFinding, string, bool) {
	jf := filepath.Join(dir, "maypanic-"+tag+".job.json")
	core.WriteJSON(jf, &MayPanicJob{Dir: dir, Exclude: exclude})
	cr := SpawnWorker("maypanic", jf, 10*time.Minute)
	data, _ := os.ReadFile(cr.LogFile)
	if cr.Status != "ok" {
		return nil, string(data), false
	}
	s := string(data)
	i, j := strings.Index(s, "MAYPANIC-JSON-BEGIN\n"), strings.Index(s, "MAYPANIC-JSON-END")
	if i < 0 || j < 0 {
		return nil, s, false
	}
	var fs []mpFinding
	if err := json.Unmarshal([]byte(strings.TrimSpace(s[i+len("MAYPANIC-JSON-BEGIN\n"):j])), &fs); err != nil {
		return nil, s, false
	}
	return fs, s, true
}

// c19Module is the module path of the C19 programs: it starts with a word of the tool's built-in allow-list
// ("go") without being inside it, so that the allow-list's package matching is exercised at its boundary.
const c19Module = "gopkg.in/vprog.v1"

// hostileModule renames the module of a generated program (imports and go.mod).
func hostileModule(files map[string]string) map[string]string {
	out := map[string]string{}
	for n, c := range files {
		out[n] = strings.ReplaceAll(c, "\"vprog/", "\""+c19Module+"/")
	}
	for n, c := range gen.RuntimeFiles() {
		if n == "go.mod" {
			c = "module " + c19Module + "\n\ngo 1.22\n"
		}
		out[n] = c
	}
	return out
}

var reCreatedBy = regexp.MustCompile(`created by [^\n]+\n\s+(\S+):(\d+)`)
var reMark = regexp.MustCompile(`// (?:entry:(\d+))?\s*(?:go:(\d+))?`)

// C19 — the may-panic analysis reports every goroutine entry without a recovering defer.
func C19(tier string) {
	run := core.NewRun("C19", tier)
	var cases []gen.PanicCase
	n := 1
	for g := range gen.GoForms {
		for r := range gen.RecForms {
			cases = append(cases, gen.PanicCase{N: n, Go: g, Rec: r})
			n++
		}
	}
	dir := filepath.Join(run.Scratch, "prog")
	files := hostileModule(gen.RenderPanicProgram(cases))
	if err := gen.WriteProgram(dir, files); err != nil {
		run.Inconclusive(err.Error())
		run.Finish("exploration", "")
	}
	// marker lines
	entryLine := map[int]string{} // case -> file:line of the entry function declaration
	goLine := map[int]string{}
	for name, content := range files {
		for i, line := range strings.Split(content, "\n") {
			if k := strings.Index(line, "// entry:"); k >= 0 {
				var c int
				fmt.Sscanf(line[k:], "// entry:%d", &c)
				entryLine[c] = fmt.Sprintf("%s:%d", name, i+1)
			}
			if k := strings.Index(line, "go:"); k >= 0 && strings.Contains(line, "//") {
				var c int
				if _, err := fmt.Sscanf(line[k:], "go:%d", &c); err == nil {
					goLine[c] = fmt.Sprintf("%s:%d", name, i+1)
				}
			}
		}
	}
	bin, err := gen.BuildNative(dir)
	if err != nil {
		run.Inconclusive("native build: " + err.Error())
		run.Finish("exploration", "")
	}
	type outcome struct {
		died      bool
		createdBy string // file:line from the crash trace
		trace     string
	}
	outs := make([]outcome, len(cases)+1)
	var mu sync.Mutex
	core.Parallel(len(cases), 16, func(i int) {
		c := cases[i]
		for _, bits := range []string{"00", "01"} { // conditional recover: both outcomes of rt.Cond(1)
			cmd := exec.Command(bin)
			cmd.Env = append(os.Environ(), "VERIF_CASE="+strconv.Itoa(c.N), "VERIF_BITS="+bits, "VERIF_EVENTS="+filepath.Join(dir, fmt.Sprintf("ev-%d.log", c.N)), "GOTRACEBACK=all")
			out, err := cmd.CombinedOutput()
			s := string(out)
			if err != nil && strings.Contains(s, fmt.Sprintf("panic: boom%d", c.N)) {
				o := outcome{died: true, trace: tailStr(s, 1500)}
				// the crashing goroutine is the first one printed
				if m := reCreatedBy.FindStringSubmatch(s); m != nil {
					o.createdBy = filepath.Base(filepath.Dir(m[1])) + "/" + filepath.Base(m[1]) + ":" + m[2]
					if !strings.HasPrefix(o.createdBy, "lib/") {
						o.createdBy = filepath.Base(m[1]) + ":" + m[2]
					}
				}
				mu.Lock()
				outs[c.N] = o
				mu.Unlock()
			} else if err != nil {
				run.Inconclusive(fmt.Sprintf("case %d: native run failed unexpectedly: %s", c.N, tailStr(s, 300)))
			}
		}
	})
	_ = os.Remove(bin)
	findings, log, ok := runMayPanic(run, dir, "all", nil)
	if !ok {
		if strings.Contains(log, "panic:") {
			run.Violation("maypanic-crash", "may-panic analysis crashed: "+tailStr(log, 3000), withRT(files))
		} else {
			run.Inconclusive("maypanic worker failed: " + tailStr(log, 400))
		}
		run.Finish("exploration", "")
	}
	rel := func(fn string) string {
		r, err := filepath.Rel(dir, fn)
		if err != nil {
			return fn
		}
		return r
	}
	byEntry := map[string]mpFinding{}
	creatorLines := map[string]bool{}
	for _, f := range findings {
		byEntry[fmt.Sprintf("%s:%d", rel(f.GoRoutine.Filename), f.GoRoutine.Line)] = f
		for _, c := range f.Creators {
			creatorLines[fmt.Sprintf("%s:%d", rel(c.Filename), c.Line)] = true
		}
	}
	checkCase := func(c gen.PanicCase, fs map[string]mpFinding, cl map[string]bool, suffix string) {
		gf, rf := gen.GoForms[c.Go], gen.RecForms[c.Rec]
		o := outs[c.N]
		sigBase := gf.Name + "/" + rf.Name + suffix
		if rf.MustDie && !o.died {
			run.Inconclusive(fmt.Sprintf("case %s: expected the process to die of the goroutine's panic but it survived (generator tag wrong?)", sigBase))
			return
		}
		if rf.MustSurvive && o.died {
			run.Inconclusive(fmt.Sprintf("case %s: expected the panic to be recovered but the process died", sigBase))
			return
		}
		if rf.HasRecoveringDefer {
			return // no obligation: the entry function defers a function that calls recover
		}
		run.Distinct(sigBase)
		f, found := fs[entryLine[c.N]]
		if !found {
			sig := "unreported:" + gf.Name + suffix
			if run.IsKnown(sig) {
				return
			}
			single := hostileModule(gen.RenderPanicProgram([]gen.PanicCase{c}))
			run.Violation(sig, fmt.Sprintf("go form %q with recover form %q: the goroutine entry function declared at %s has no recovering defer (a native run died with its panic: created by %s) but is not in the may-panic report", gf.Name, rf.Name, entryLine[c.N], o.createdBy), withRT(single))
			return
		}
		hasCreator := false
		for _, cr := range f.Creators {
			if fmt.Sprintf("%s:%d", rel(cr.Filename), cr.Line) == goLine[c.N] {
				hasCreator = true
			}
		}
		if !hasCreator {
			sig := "creator-missing:" + gf.Name + suffix
			if !run.IsKnown(sig) {
				single := hostileModule(gen.RenderPanicProgram([]gen.PanicCase{c}))
				run.Violation(sig, fmt.Sprintf("go form %q / %q: entry reported but its creation site %s is not among the creators %v", gf.Name, rf.Name, goLine[c.N], f.Creators), withRT(single))
			}
		}
		// dynamic half: the crash trace's creation site must be a reported creator
		if o.createdBy != "" && !cl[o.createdBy] {
			sig := "crash-creator-unreported:" + gf.Name + suffix
			if !run.IsKnown(sig) {
				run.Violation(sig, fmt.Sprintf("a run was terminated by a panic in a goroutine created at %s, which no finding lists as a creator", o.createdBy), withRT(files))
			}
		}
	}
	died := 0
	for _, c := range cases {
		run.Eval(1)
		if outs[c.N].died {
			died++
		}
		checkCase(c, byEntry, creatorLines, "")
	}
	// with -exclude lib: findings of package main must be unaffected
	fex, log2, ok2 := runMayPanic(run, dir, "excl", []string{filepath.Join(dir, "lib")})
	if ok2 {
		byEntry2 := map[string]mpFinding{}
		cl2 := map[string]bool{}
		for _, f := range fex {
			byEntry2[fmt.Sprintf("%s:%d", rel(f.GoRoutine.Filename), f.GoRoutine.Line)] = f
			for _, c := range f.Creators {
				cl2[fmt.Sprintf("%s:%d", rel(c.Filename), c.Line)] = true
			}
		}
		for _, c := range cases {
			if gen.GoForms[c.Go].Lib != "" {
				continue
			}
			checkCase(c, byEntry2, cl2, "@exclude-lib")
		}
	} else {
		run.Inconclusive("maypanic -exclude run failed: " + tailStr(log2, 300))
	}
	run.Cov["cases"] = len(cases)
	run.Cov["native_runs_that_died_of_the_goroutine_panic"] = died
	run.Cov["findings_reported"] = len(findings)
	run.Cov["go_forms"] = len(gen.GoForms)
	run.Cov["recover_forms"] = len(gen.RecForms)
	if len(findings) > 0 {
		run.Sample(map[string]any{"finding": findings[0]})
	}
	run.Sample(map[string]any{"case": "named/none", "crash_created_by": outs[1].createdBy, "entry_decl": entryLine[1], "go_stmt": goLine[1]})
	run.Assumptions = append(run.Assumptions, "obligation only when the entry function syntactically defers no function containing a recover call (generator tag), validated by the native outcome (process died of that goroutine's panic)",
		"the crash trace's 'created by' line identifies the go statement")
	run.Finish("exploration", "cross product of 21 go-statement forms x 15 panic-handling forms; each case is run natively with the panic forced inside that goroutine (both outcomes of the opaque bit); "+
		"non-trivial = case whose entry has no recovering defer and whose native run died; oracle: entry function in the report with the go statement among its creators, also under -exclude of another package")
}
