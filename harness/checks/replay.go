package checks

import (
	"fmt"
	"os"
	"path/filepath"

	"verif/harness/core"
	"verif/harness/gen"
)

// Replay re-runs the case saved in a replay directory and exits 1 if it still violates.
func Replay(dir string) {
	var rj struct {
		Check string   `json:"check"`
		Kind  string   `json:"kind"`
		Links []string `json:"links"`
		Cfgs  []string `json:"cfgs"`
		Sig   string   `json:"sig"`
	}
	if err := core.ReadJSON(filepath.Join(dir, "replay.json"), &rj); err != nil {
		fmt.Fprintf(os.Stderr, "no replay.json in %s: %v (see WHAT.txt for the case description)\n", dir, err)
		os.Exit(2)
	}
	if f := replayers[rj.Kind]; f != nil {
		f(dir)
		return
	}
	switch rj.Kind {
	case "chain":
		run := core.NewRun(rj.Check+"-replay", "replay")
		opts := chainOptsFor(rj.Check)
		b := &gen.Batch{Chains: []gen.Chain{{ID: 1, Links: rj.Links}}}
		outs := ProcessBatches(run, "replay", []*gen.Batch{b}, opts)
		o := outs[0]
		fmt.Printf("status=%s observed=%v\n", o.Status, o.Observed)
		misses := FindMisses(o, opts.Cfgs, acceptFor(rj.Check))
		for _, m := range misses {
			fmt.Printf("STILL VIOLATES: chain %v pair %v not reported under %v\n", m.Chain.Links, m.Pair, m.Cfgs)
		}
		_ = os.RemoveAll(run.Scratch)
		if len(misses) > 0 {
			os.Exit(1)
		}
		fmt.Println("replay: no violation")
	default:
		fmt.Fprintf(os.Stderr, "unknown replay kind %q\n", rj.Kind)
		os.Exit(2)
	}
}

var replayers = map[string]func(dir string){}

// chainOptsFor returns the full option set of a chain-based check (used by replay).
func chainOptsFor(check string) ChainOpts {
	if f := chainOptsByCheck[check]; f != nil {
		return f()
	}
	return ChainOpts{Cfgs: StdCfgs(true), Repeat: 1}
}

func acceptFor(check string) func(o *BatchOutcome, cfg string, rep int, p Pair) bool {
	return acceptByCheck[check]
}

var chainOptsByCheck = map[string]func() ChainOpts{}
var acceptByCheck = map[string]func(o *BatchOutcome, cfg string, rep int, p Pair) bool{}
