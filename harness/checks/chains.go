package checks

import (
	"encoding/json"
	"fmt"
	"os"
	"path/filepath"
	"sort"
	"strings"
	"sync"
	"time"

	"verif/harness/ana"
	"verif/harness/core"
	"verif/harness/gen"
)

// ChainCfg is one analyzer configuration for chain batches.
type ChainCfg struct {
	Name      string
	FieldSens bool
	OnDemand  bool
	Rewrites  bool
	PkgFilter string
	Extra     string // extra yaml lines under options:
	Problem   string // extra yaml lines inside the taint problem (sanitizers, validators)
	TopLevel  string // extra top-level yaml
	// TwoProblems splits the specification into two taint-tracking problems (sources Source / SourceB, same sinks).
	TwoProblems bool
}

// YAML renders the configuration file.
func (c ChainCfg) YAML() string {
	var sb strings.Builder
	if c.TwoProblems {
		// two taint-tracking problems that share the sinks and differ in their sources
		sb.WriteString("taint-tracking-problems:\n")
		for _, src := range []string{"^Source$", "^SourceB$"} {
			fmt.Fprintf(&sb, "  - sources:\n      - package: \"vprog/rt$\"\n        method: %q\n", src)
			sb.WriteString("    sinks:\n      - package: \"vprog/rt$\"\n        method: \"^Sink[SR2]?$\"\n")
			sb.WriteString(c.Problem)
		}
	} else {
		sb.WriteString("taint-tracking-problems:\n  - sources:\n      - package: \"vprog/rt$\"\n        method: \"^Source[B]?$\"\n")
		sb.WriteString("    sinks:\n      - package: \"vprog/rt$\"\n        method: \"^Sink[SR2]?$\"\n")
		sb.WriteString(c.Problem)
	}
	sb.WriteString("slicing-problems:\n  - backtracepoints:\n      - package: \"vprog/rt$\"\n        method: \"^Sink[SR2]?$\"\n")
	sb.WriteString(c.TopLevel)
	sb.WriteString("options:\n")
	if !strings.Contains(c.Extra, "log-level:") {
		sb.WriteString("  log-level: 1\n")
	}
	fmt.Fprintf(&sb, "  field-sensitive: %v\n  summarize-on-demand: %v\n", c.FieldSens, c.OnDemand)
	if c.PkgFilter != "" {
		fmt.Fprintf(&sb, "  pkg-filter: %q\n", c.PkgFilter)
	}
	sb.WriteString(c.Extra)
	return sb.String()
}

// StdCfgs returns the soundness-preserving configurations of C01: {field-sensitive} x {on-demand} x {rewrites}
// (+ pkg-filter variants when full).
func StdCfgs(full bool) []ChainCfg {
	var out []ChainCfg
	for _, fs := range []bool{false, true} {
		for _, od := range []bool{false, true} {
			for _, rw := range []bool{true, false} {
				n := fmt.Sprintf("fs%d-od%d-rw%d", b2i(fs), b2i(od), b2i(rw))
				out = append(out, ChainCfg{Name: n, FieldSens: fs, OnDemand: od, Rewrites: rw})
			}
		}
	}
	if full {
		out = append(out,
			ChainCfg{Name: "fs0-od0-rw1-pfmain", Rewrites: true, PkgFilter: "vprog"},
			ChainCfg{Name: "fs0-od0-rw1-pflib", Rewrites: true, PkgFilter: "vprog/lib"},
			ChainCfg{Name: "fs1-od0-rw1-pfnone", FieldSens: true, Rewrites: true, PkgFilter: "^$"},
		)
	}
	return out
}

func b2i(b bool) int {
	if b {
		return 1
	}
	return 0
}

// Pair is an (source id, sink id) pair.
type Pair struct{ Src, Snk int }

// BatchOutcome is everything observed and reported about one batch program.
type BatchOutcome struct {
	Index    int
	Batch    *gen.Batch
	Dir      string
	Files    map[string]string
	Sites    *gen.SiteMap
	Inputs   int
	Observed map[Pair]string              // pair -> first input (bits) on which it was observed
	Reported map[string][]map[Pair]bool   // cfg -> repetition -> reported pairs
	Escaped  map[string][]map[int]bool    // cfg -> repetition -> source ids reported as escaping
	Raw      map[string][]ana.TaintResult // cfg -> raw results
	Waived   map[int][]string             // chain id -> offenders
	Status   string                       // ok | native-fail | analyzer-<status>
	Detail   string
	AnaS     float64
	ValidLog map[string][]gen.Event // bits -> events (only kept when KeepEvents)
	// CfgCrash lists configurations whose isolated child did not return a result: (config, status, log tail)
	CfgCrash [][3]string
}

// ChainOpts parametrises batch processing.
type ChainOpts struct {
	Cfgs       []ChainCfg
	Repeat     int
	KeepEvents bool
	// VBitsN is the number of validator outcome bits to enumerate (0: none).
	VBitsN int
	// Observe overrides how events become obligations; nil: every raw marker at a sink is an observed flow.
	Observe      func(evs []gen.Event, add func(Pair))
	Watchdog     time.Duration
	NativeRepeat int
	NativeEnv    []string
	// Analysis is "taint" (default) or "backtrace".
	Analysis string
	// IsolateCfgs runs every configuration in its own child process.
	IsolateCfgs bool
}

func usesCond(files map[string]string) bool {
	for _, c := range files {
		if strings.Contains(c, "rt.Cond(") {
			return true
		}
	}
	return false
}

// ProcessBatches generates, executes natively and analyses the given batches in parallel.
func ProcessBatches(run *core.Run, tag string, batches []*gen.Batch, opts ChainOpts) []*BatchOutcome {
	outs := make([]*BatchOutcome, len(batches))
	if opts.Watchdog == 0 {
		opts.Watchdog = 15 * time.Minute
	}
	var mu sync.Mutex
	if ob := os.Getenv("VERIF_ONLY_BATCH"); ob != "" && tag == "b" {
		// development aid: only this batch of the main workload; prints its chains
		var k int
		_, _ = fmt.Sscanf(ob, "%d", &k)
		if k < len(batches) {
			for _, ch := range batches[k].Chains {
				fmt.Println("ONLY-BATCH chain", ch.ID, gen.Key(ch.Links))
			}
			batches = []*gen.Batch{batches[k]}
			outs = make([]*BatchOutcome, 1)
		}
	}
	core.Parallel(len(batches), 8, func(i int) {
		o := processBatch(run, fmt.Sprintf("%s-%03d", tag, i), batches[i], opts)
		o.Index = i
		mu.Lock()
		outs[i] = o
		mu.Unlock()
	})
	return outs
}

func processBatch(run *core.Run, name string, b *gen.Batch, opts ChainOpts) *BatchOutcome {
	o := &BatchOutcome{Batch: b, Observed: map[Pair]string{}, Reported: map[string][]map[Pair]bool{},
		Escaped: map[string][]map[int]bool{}, Raw: map[string][]ana.TaintResult{}, Waived: map[int][]string{}, Status: "ok",
		ValidLog: map[string][]gen.Event{}}
	o.Dir = filepath.Join(run.Scratch, name)
	o.Files = b.Files()
	o.Sites = gen.ScanSites(o.Files)
	if err := gen.WriteProgram(o.Dir, o.Files); err != nil {
		o.Status, o.Detail = "native-fail", err.Error()
		return o
	}
	// E1: native execution under all opaque inputs.
	bin, err := gen.BuildNative(o.Dir)
	if err != nil {
		o.Status, o.Detail = "native-fail", err.Error()
		return o
	}
	nb := 0
	if usesCond(o.Files) {
		nb = 6
	}
	evfile := filepath.Join(o.Dir, "events.log")
	for in := 0; in < 1<<nb; in++ {
		bits := fmt.Sprintf("%06b", in)
		if nb == 0 {
			bits = ""
		}
		for vb := 0; vb < 1<<opts.VBitsN; vb++ {
			vbits := ""
			if opts.VBitsN > 0 {
				vbits = fmt.Sprintf("%0*b", opts.VBitsN, vb)
			}
			evs, err := gen.RunNative(bin, bits, vbits, evfile, opts.NativeEnv...)
			if err != nil {
				o.Status, o.Detail = "native-fail", err.Error()
				return o
			}
			o.Inputs++
			add := func(p Pair) {
				if _, ok := o.Observed[p]; !ok {
					o.Observed[p] = bits + "/" + vbits
				}
			}
			if opts.Observe != nil {
				opts.Observe(evs, add)
			} else {
				for _, ev := range evs {
					if ev.Kind == "K" {
						for _, s := range ev.Raw {
							add(Pair{s, ev.ID})
						}
					}
				}
			}
			if opts.KeepEvents {
				o.ValidLog[bits+"/"+vbits] = evs
			}
		}
	}
	_ = os.Remove(bin)
	// E2: the analyzer, in a supervised child.
	job := &TaintJob{Dir: o.Dir, Out: filepath.Join(o.Dir, "taint.out.json")}
	for _, c := range opts.Cfgs {
		cp := filepath.Join(o.Dir, "cfg-"+c.Name+".yaml")
		_ = os.WriteFile(cp, []byte(c.YAML()), 0o644)
		job.Runs = append(job.Runs, TaintRunSpec{Name: c.Name, Config: cp, Rewrites: c.Rewrites, Repeat: opts.Repeat, Analysis: opts.Analysis})
	}
	for _, ch := range b.Chains {
		job.GuardFuncs = append(job.GuardFuncs, fmt.Sprintf("chain%d", ch.ID))
	}
	var res TaintJobResult
	if opts.IsolateCfgs {
		// one child per configuration: a crash under one configuration must not lose the answers of the others
		res = TaintJobResult{Results: map[string][]ana.TaintResult{}, Waived: map[string][]string{}}
		for ri, rs := range job.Runs {
			one := &TaintJob{Dir: job.Dir, Runs: []TaintRunSpec{rs}, GuardFuncs: job.GuardFuncs, Out: filepath.Join(o.Dir, fmt.Sprintf("taint.out-%d.json", ri))}
			jf := filepath.Join(o.Dir, fmt.Sprintf("taint.job-%d.json", ri))
			core.WriteJSON(jf, one)
			cr := SpawnWorker("taint", jf, opts.Watchdog)
			if cr.Status != "ok" {
				data, _ := os.ReadFile(cr.LogFile)
				o.CfgCrash = append(o.CfgCrash, [3]string{rs.Name, cr.Status, tailStr(string(data), 6000)})
				continue
			}
			var r1 TaintJobResult
			if err := core.ReadJSON(one.Out, &r1); err != nil || r1.Err != "" {
				o.CfgCrash = append(o.CfgCrash, [3]string{rs.Name, "fail", r1.Err})
				continue
			}
			for k, v := range r1.Results {
				res.Results[k] = v
			}
			for k, v := range r1.Waived {
				res.Waived[k] = mergeSorted(res.Waived[k], v)
			}
			res.AnaS += r1.AnaS
		}
		if len(res.Results) == 0 && len(o.CfgCrash) > 0 {
			o.Status = "analyzer-" + o.CfgCrash[0][1]
			o.Detail = o.CfgCrash[0][2]
			return o
		}
	} else {
		jf := filepath.Join(o.Dir, "taint.job.json")
		core.WriteJSON(jf, job)
		cr := SpawnWorker("taint", jf, opts.Watchdog)
		if cr.Status != "ok" {
			o.Status = "analyzer-" + cr.Status
			data, _ := os.ReadFile(cr.LogFile)
			o.Detail = tailStr(string(data), 6000)
			return o
		}
		if err := core.ReadJSON(job.Out, &res); err != nil {
			o.Status, o.Detail = "analyzer-fail", err.Error()
			return o
		}
	}
	if res.Err != "" {
		o.Status, o.Detail = "analyzer-fail", res.Err
		return o
	}
	o.AnaS = res.AnaS
	for cfg, reps := range res.Results {
		o.Raw[cfg] = reps
		for _, tr := range reps {
			m := map[Pair]bool{}
			for _, fp := range tr.Flows {
				s, ok1 := o.Sites.SrcLine[fp.Src.String()]
				k, ok2 := o.Sites.SnkLine[fp.Snk.String()]
				if ok1 && ok2 {
					m[Pair{s, k}] = true
				}
			}
			o.Reported[cfg] = append(o.Reported[cfg], m)
			e := map[int]bool{}
			for _, p := range tr.EscapeSrcs {
				if s, ok := o.Sites.SrcLine[p.String()]; ok {
					e[s] = true
				}
			}
			o.Escaped[cfg] = append(o.Escaped[cfg], e)
		}
	}
	for fn, off := range res.Waived {
		var id int
		if _, err := fmt.Sscanf(fn, "chain%d", &id); err == nil {
			o.Waived[id] = off
		}
	}
	return o
}

func tailStr(s string, n int) string {
	if len(s) <= n {
		return s
	}
	return s[len(s)-n:]
}

// Miss is an observed flow that some configuration did not report.
type Miss struct {
	Chain gen.Chain
	Pair  Pair
	Cfgs  []string
	Input string
	Out   *BatchOutcome
}

// FindMisses compares observed with reported: every observed pair of a non-waived chain must be reported by
// every configuration in every repetition. accept may declare a pair covered by other means (e.g. escape reports).
func FindMisses(o *BatchOutcome, cfgs []ChainCfg, accept func(o *BatchOutcome, cfg string, rep int, p Pair) bool) []Miss {
	var misses []Miss
	chainOf := map[int]gen.Chain{}
	for _, ch := range o.Batch.Chains {
		chainOf[ch.ID] = ch
	}
	var pairs []Pair
	for p := range o.Observed {
		pairs = append(pairs, p)
	}
	sort.Slice(pairs, func(i, j int) bool {
		if pairs[i].Src != pairs[j].Src {
			return pairs[i].Src < pairs[j].Src
		}
		return pairs[i].Snk < pairs[j].Snk
	})
	for _, p := range pairs {
		ch, ok := chainOf[p.Src]
		if !ok {
			continue
		}
		if _, w := o.Waived[ch.ID]; w {
			continue
		}
		var bad []string
		for _, c := range cfgs {
			reps := o.Reported[c.Name]
			if len(reps) == 0 {
				crashed := false
				for _, cc := range o.CfgCrash {
					if cc[0] == c.Name {
						crashed = true
					}
				}
				if !crashed {
					bad = append(bad, c.Name+"(no result)")
				}
				continue
			}
			for ri, rep := range reps {
				if !rep[p] && !(accept != nil && accept(o, c.Name, ri, p)) {
					bad = append(bad, c.Name)
					break
				}
			}
		}
		if len(bad) > 0 {
			misses = append(misses, Miss{Chain: ch, Pair: p, Cfgs: bad, Input: o.Observed[p], Out: o})
		}
	}
	return misses
}

// subsequences returns all non-empty proper and improper subsequences of links (as chains), shortest first.
func subsequences(links []string) [][]string {
	n := len(links)
	var out [][]string
	for mask := 1; mask < 1<<n; mask++ {
		var s []string
		for i := 0; i < n; i++ {
			if mask&(1<<i) != 0 {
				s = append(s, links[i])
			}
		}
		out = append(out, s)
	}
	sort.SliceStable(out, func(i, j int) bool { return len(out[i]) < len(out[j]) })
	return out
}

func isSubseq(small, big []string) bool {
	i := 0
	for _, x := range big {
		if i < len(small) && small[i] == x {
			i++
		}
	}
	return i == len(small)
}

// sigLinks parses the link part of a known-finding signature "a>b@cfg".
func sigLinks(sig string) ([]string, string) {
	cfg := ""
	if i := strings.Index(sig, "@"); i >= 0 {
		cfg = sig[i+1:]
		sig = sig[:i]
	}
	return strings.Split(sig, ">"), cfg
}

// Attribute decides, for every miss, whether it is explained by listed known findings (attributed through its
// minimal failing sub-chains, established by re-running them) or is a new violation.
func Attribute(run *core.Run, misses []Miss, opts ChainOpts, accept func(o *BatchOutcome, cfg string, rep int, p Pair) bool,
	sigSuffix string) {
	if len(misses) == 0 {
		return
	}
	known := run.KnownSigs()
	type pending struct {
		miss Miss
	}
	// Step 1: direct hits, and collection of the sub-chains to re-run.
	var todo []Miss
	for _, m := range misses {
		key := gen.Key(m.Chain.Links) + sigSuffix
		if known[key] {
			run.IsKnown(key)
			continue
		}
		todo = append(todo, m)
	}
	if len(todo) == 0 {
		return
	}
	// Step 2: for each remaining miss enumerate subsequences (bounded), run them all, find the minimal failing ones.
	type subKey struct {
		miss int
		key  string
	}
	var chains []gen.Chain
	owner := map[int]subKey{}
	reduced := map[int]bool{}
	id := 1
	for mi, m := range todo {
		// Links that are themselves listed single-link findings are removed first: the remaining sub-chains
		// are exactly the ones whose failure the list cannot explain.
		var links []string
		for _, l := range m.Chain.Links {
			if known[l+sigSuffix] {
				run.IsKnown(l + sigSuffix)
				continue
			}
			links = append(links, l)
		}
		reduced[mi] = len(links) != len(m.Chain.Links)
		subs := subsequences(links)
		if len(links) > 7 {
			// bounded: singles, pairs and leave-one-out
			var b [][]string
			for _, s := range subs {
				if len(s) <= 2 || len(s) >= len(links)-1 {
					b = append(b, s)
				}
			}
			subs = b
		}
		for _, s := range subs {
			chains = append(chains, gen.Chain{ID: id, Links: s})
			owner[id] = subKey{mi, gen.Key(s)}
			id++
		}
	}
	var batches []*gen.Batch
	for i := 0; i < len(chains); i += 50 {
		j := i + 50
		if j > len(chains) {
			j = len(chains)
		}
		batches = append(batches, &gen.Batch{Chains: chains[i:j]})
	}
	outs := ProcessBatches(run, "min"+sigSuffix, batches, opts)
	failing := map[int]map[string][]string{} // miss -> failing key -> cfgs
	inconclusive := false
	for _, o := range outs {
		if o.Status != "ok" {
			run.Inconclusive("minimisation batch " + o.Status + ": " + firstLine(o.Detail))
			inconclusive = true
			continue
		}
		for _, mm := range FindMisses(o, opts.Cfgs, accept) {
			ow := owner[mm.Chain.ID]
			if mm.Pair.Src != mm.Chain.ID {
				continue
			}
			if failing[ow.miss] == nil {
				failing[ow.miss] = map[string][]string{}
			}
			failing[ow.miss][ow.key] = mm.Cfgs
		}
	}
	for mi, m := range todo {
		f := failing[mi]
		full := gen.Key(m.Chain.Links)
		if len(f) == 0 {
			if inconclusive || reduced[mi] {
				// every sub-chain without the listed single-link findings passes: explained by the list
				continue
			}
			// The miss did not reproduce on re-run: intermittent analyzer behaviour. It is attributed to a link
			// that is listed as intermittently failing (sig "<link>#intermittent"), otherwise reported as such.
			attributed := false
			for _, l := range m.Chain.Links {
				if known[l+"#intermittent"+sigSuffix] {
					run.IsKnown(l + "#intermittent" + sigSuffix)
					attributed = true
					break
				}
			}
			if !attributed {
				reportViolation(run, full+sigSuffix+"#intermittent", m, "miss did not reproduce when the chain was re-run alone")
			}
			continue
		}
		// minimal failing keys: those with no failing proper subsequence
		var keys []string
		for k := range f {
			keys = append(keys, k)
		}
		sort.Slice(keys, func(i, j int) bool { return len(keys[i]) < len(keys[j]) })
		var minimal []string
		for _, k := range keys {
			kl := strings.Split(k, ">")
			isMin := true
			for _, k2 := range minimal {
				if isSubseq(strings.Split(k2, ">"), kl) {
					isMin = false
					break
				}
			}
			if isMin {
				minimal = append(minimal, k)
			}
		}
		for _, k := range minimal {
			sig := k + sigSuffix
			if known[sig] {
				run.IsKnown(sig)
				continue
			}
			// prefix entries "a>*": every minimal chain that starts with link a (one root cause tied to that link)
			if i := strings.Index(k, ">"); i > 0 && known[k[:i]+">*"+sigSuffix] {
				run.IsKnown(k[:i] + ">*" + sigSuffix)
				continue
			}
			// suffix entries "*>b": every minimal two-link chain that ends with link b (one root cause tied to what b does
			// with data that arrives through an earlier link)
			if parts := strings.Split(k, ">"); len(parts) == 2 && known["*>"+parts[1]+sigSuffix] {
				run.IsKnown("*>" + parts[1] + sigSuffix)
				continue
			}
			// Field-sensitive mode loses flows of multi-link chains on the pinned tree in a way that is not
			// attributable link pair by link pair (see DESIGN, known finding "*multi-link@field-sensitive"):
			// a multi-link minimal chain that fails ONLY under field-sensitive configurations is attributed to it.
			if fsOnly(f[k]) && strings.Contains(k, ">") && known["*multi-link@field-sensitive"+sigSuffix] {
				run.IsKnown("*multi-link@field-sensitive" + sigSuffix)
				continue
			}
			mm := m
			mm.Cfgs = f[k]
			reportViolation(run, sig, mm, "minimal failing sub-chain of "+full)
		}
	}
}

// fsOnly reports whether every failing configuration has field sensitivity on.
func fsOnly(cfgs []string) bool {
	if len(cfgs) == 0 {
		return false
	}
	for _, c := range cfgs {
		if !strings.HasPrefix(c, "fs1") {
			return false
		}
	}
	return true
}

func firstLine(s string) string {
	if i := strings.Index(s, "\n"); i >= 0 {
		return s[:i]
	}
	return s
}

func reportViolation(run *core.Run, sig string, m Miss, note string) {
	files := map[string]string{}
	for n, c := range m.Out.Files {
		files["prog/"+n] = c
	}
	for _, c := range m.Cfgs {
		name := strings.TrimSuffix(c, "(no result)")
		if data, err := os.ReadFile(filepath.Join(m.Out.Dir, "cfg-"+name+".yaml")); err == nil {
			files["cfg-"+name+".yaml"] = string(data)
		}
	}
	what := fmt.Sprintf("chain %d %v: flow source#%d (%s) -> sink#%d (%s) observed natively on input %q but NOT reported under configs %v; %s",
		m.Chain.ID, m.Chain.Links, m.Pair.Src, m.Out.Sites.SrcOf[m.Pair.Src], m.Pair.Snk, m.Out.Sites.SnkOf[m.Pair.Snk], m.Input, m.Cfgs, note)
	for n, c := range gen.RuntimeFiles() {
		files["prog/"+n] = c
	}
	rj, _ := json.Marshal(map[string]any{"check": run.ID, "kind": "chain", "links": m.Chain.Links, "cfgs": m.Cfgs, "sig": sig})
	files["replay.json"] = string(rj) + "\n"
	run.Violation(sig, what, files)
}
