package checks

import (
	"fmt"
	"os"
	"path/filepath"
	"regexp"
	"sort"
	"strings"
	"sync"

	"github.com/awslabs/ar-go-tools/analysis/config"
	"github.com/awslabs/ar-go-tools/analysis/dataflow"
	"golang.org/x/tools/go/ssa"

	"verif/harness/ana"
	"verif/harness/core"
	"verif/harness/gen"
)

// SummaryJob asks the worker to summarise functions one by one and compare each summary with the SSA def-use
// reference relation, and the final abstract state with its control-flow closure.
type SummaryJob struct {
	Dir       string `json:"dir"`
	PkgRegex  string `json:"pkg_regex"`
	MaxInstrs int    `json:"max_instrs"`
	FieldSens bool   `json:"field_sens"`
	Out       string `json:"out"`
}

// SummaryFinding is one missing edge / non-closed state.
type SummaryFinding struct {
	Sig    string `json:"sig"`
	Detail string `json:"detail"`
}

// SummaryResult is the worker's answer.
type SummaryResult struct {
	Functions   int              `json:"functions"`
	Obligations int              `json:"obligations"`
	StatePairs  int              `json:"state_pairs"`
	Findings    []SummaryFinding `json:"findings"`
	ByKind      map[string]int   `json:"by_kind"`
	Err         string           `json:"err,omitempty"`
}

// isValueComputing reports whether data flows from the operands of v to v by a direct SSA def-use step
// (the instruction kinds listed in property C08).
func isValueComputing(v ssa.Value) bool {
	switch x := v.(type) {
	case *ssa.BinOp, *ssa.Convert, *ssa.ChangeType, *ssa.ChangeInterface, *ssa.MakeInterface, *ssa.TypeAssert,
		*ssa.Field, *ssa.FieldAddr, *ssa.Index, *ssa.IndexAddr, *ssa.Lookup, *ssa.Phi, *ssa.Extract, *ssa.Slice,
		*ssa.SliceToArrayPointer:
		return true
	case *ssa.UnOp:
		return x.Op.String() != "*" && x.Op.String() != "<-" // loads and receives go through memory/channels
	case *ssa.Call:
		if b, ok := x.Call.Value.(*ssa.Builtin); ok {
			switch b.Name() {
			case "append", "min", "max", "real", "imag", "complex", "ssa:wrapnilchk":
				return true
			}
		}
	}
	return false
}

func dataOperands(v ssa.Value) []ssa.Value {
	switch x := v.(type) {
	case *ssa.Lookup:
		return []ssa.Value{x.X, x.Index}
	case *ssa.Index:
		return []ssa.Value{x.X}
	case *ssa.IndexAddr:
		return []ssa.Value{x.X}
	case *ssa.Slice:
		return []ssa.Value{x.X}
	case *ssa.Call:
		return x.Call.Args
	}
	in, ok := v.(ssa.Instruction)
	if !ok {
		return nil
	}
	var out []ssa.Value
	for _, op := range in.Operands(nil) {
		if op != nil && *op != nil {
			out = append(out, *op)
		}
	}
	return out
}

func isOriginCall(v ssa.Value) (*ssa.Call, bool) {
	c, ok := v.(*ssa.Call)
	if !ok {
		return nil, false
	}
	if _, isB := c.Call.Value.(*ssa.Builtin); isB {
		return nil, false
	}
	return c, true
}

// origins returns the origins (parameters, free variables, non-builtin call results) that reach v through
// value-computing instructions only, with the tuple index extracted on the way (-1: none/any).
func originsOf(v ssa.Value, memo map[ssa.Value]map[ssa.Value]bool, depth int) map[ssa.Value]bool {
	if r, ok := memo[v]; ok {
		return r
	}
	res := map[ssa.Value]bool{}
	memo[v] = res // cycle guard (phi)
	switch v.(type) {
	case *ssa.Parameter, *ssa.FreeVar:
		res[v] = true
		return res
	}
	if _, ok := isOriginCall(v); ok {
		res[v] = true
		return res
	}
	if !isValueComputing(v) || depth > 200 {
		return res
	}
	for _, op := range dataOperands(v) {
		for o := range originsOf(op, memo, depth+1) {
			res[o] = true
		}
	}
	return res
}

func init() {
	extraWorkers["summary"] = func(jobFile string) {
		var job SummaryJob
		if err := core.ReadJSON(jobFile, &job); err != nil {
			fmt.Fprintln(os.Stderr, err)
			os.Exit(2)
		}
		res := &SummaryResult{ByKind: map[string]int{}}
		l, err := ana.Load(job.Dir, true)
		if err != nil {
			res.Err = "load: " + err.Error()
			core.WriteJSON(job.Out, res)
			return
		}
		cfg := config.NewDefault()
		cfg.LogLevel = int(config.ErrLevel)
		cfg.PathSensitive = job.FieldSens
		state, err := dataflow.NewInitializedAnalyzerState(l.Prog, l.Pkgs, config.NewLogGroup(cfg), cfg)
		if err != nil {
			res.Err = "state: " + err.Error()
			core.WriteJSON(job.Out, res)
			return
		}
		re := regexp.MustCompile(job.PkgRegex)
		var funcs []*ssa.Function
		for f := range state.ReachableFunctions() {
			if f == nil || f.Blocks == nil || f.Pkg == nil || !re.MatchString(f.Pkg.Pkg.Path()) {
				continue
			}
			n := 0
			for _, b := range f.Blocks {
				n += len(b.Instrs)
			}
			if n > job.MaxInstrs {
				continue
			}
			funcs = append(funcs, f)
		}
		sort.Slice(funcs, func(i, j int) bool { return funcs[i].String() < funcs[j].String() })
		var mu sync.Mutex
		seen := map[string]bool{}
		add := func(sig, detail string) {
			mu.Lock()
			if !seen[sig+detail] && len(res.Findings) < 200 {
				seen[sig+detail] = true
				res.Findings = append(res.Findings, SummaryFinding{sig, detail})
			}
			mu.Unlock()
		}
		noTrack := func(*dataflow.AnalyzerState, ssa.Node) bool { return false }
		core.Parallel(len(funcs), 8, func(i int) {
			f := funcs[i]
			var fi *dataflow.FlowInformation
			cb := func(st *dataflow.IntraAnalysisState) { fi = st.FlowInfo() }
			r, err := dataflow.IntraProceduralAnalysis(state, f, true, dataflow.GetUniqueFunctionID(), noTrack, cb)
			if err != nil || r.Summary == nil || r.Summary.IsPreSummarized || !r.Summary.Constructed {
				return
			}
			ob, sp := checkSummary(f, r.Summary, fi, add)
			mu.Lock()
			res.Functions++
			res.Obligations += ob
			res.StatePairs += sp
			mu.Unlock()
		})
		for _, fd := range res.Findings {
			res.ByKind[fd.Sig]++
		}
		core.WriteJSON(job.Out, res)
	}
}

func valKind(v ssa.Value) string {
	return strings.TrimPrefix(fmt.Sprintf("%T", v), "*ssa.")
}

// checkSummary checks (i) def-use coverage and (ii) closure of the final abstract state for one function.
func checkSummary(f *ssa.Function, sm *dataflow.SummaryGraph, fi *dataflow.FlowInformation, add func(sig, detail string)) (int, int) {
	memo := map[ssa.Value]map[ssa.Value]bool{}
	obligations := 0
	originNodes := func(o ssa.Value) []dataflow.GraphNode {
		switch x := o.(type) {
		case *ssa.Parameter:
			if n := sm.Params[x]; n != nil {
				return []dataflow.GraphNode{n}
			}
		case *ssa.FreeVar:
			if n := sm.FreeVars[x]; n != nil {
				return []dataflow.GraphNode{n}
			}
		case *ssa.Call:
			var l []dataflow.GraphNode
			for _, n := range sm.Callees[x] {
				l = append(l, n)
			}
			return l
		}
		return nil
	}
	require := func(o ssa.Value, uses []dataflow.GraphNode, what string, at ssa.Instruction) {
		ons := originNodes(o)
		if len(ons) == 0 || len(uses) == 0 {
			return
		}
		obligations++
		for _, on := range ons {
			for _, u := range uses {
				if _, ok := on.Out()[u]; ok {
					return
				}
			}
		}
		pos := f.Prog.Fset.Position(at.Pos())
		add(fmt.Sprintf("missing-edge:%s->%s", valKind(o), what),
			fmt.Sprintf("function %s: SSA def-use chain from %s %s to %s at %s (%s:%d) has no edge in the summary", f.String(), valKind(o), o.Name(), what, at.String(), filepath.Base(pos.Filename), pos.Line))
	}
	for _, b := range f.Blocks {
		for _, ins := range b.Instrs {
			switch x := ins.(type) {
			case *ssa.Return:
				nodes := sm.Returns[x]
				for k, r := range x.Results {
					if k >= len(nodes) || nodes[k] == nil {
						continue
					}
					for o := range originsOf(r, memo, 0) {
						require(o, []dataflow.GraphNode{nodes[k]}, "return", x)
					}
				}
			case ssa.CallInstruction:
				common := x.Common()
				if _, isB := common.Value.(*ssa.Builtin); isB {
					continue
				}
				cnodes := sm.Callees[x]
				if len(cnodes) == 0 {
					continue
				}
				for j, a := range common.Args {
					var uses []dataflow.GraphNode
					for _, cn := range cnodes {
						args := cn.Args()
						k := j
						if common.IsInvoke() {
							k = j + 1 // receiver first
						}
						if k < len(args) && args[k] != nil {
							uses = append(uses, args[k])
						}
					}
					for o := range originsOf(a, memo, 0) {
						// (a call's own result can reach its own argument through a loop-carried phi: x = step(x))
						require(o, uses, "call-argument", x)
					}
				}
			case *ssa.MakeClosure:
				cn := sm.CreatedClosures[x]
				if cn == nil {
					continue
				}
				for j, bnd := range x.Bindings {
					bvs := cn.BoundVars()
					if j >= len(bvs) || bvs[j] == nil {
						continue
					}
					for o := range originsOf(bnd, memo, 0) {
						require(o, []dataflow.GraphNode{bvs[j]}, "closure-binding", x)
					}
				}
			case *ssa.If:
				in := sm.Ifs[x]
				if in == nil {
					continue
				}
				for o := range originsOf(x.Cond, memo, 0) {
					require(o, []dataflow.GraphNode{in}, "branch-condition", x)
				}
			}
		}
	}
	// (ii) closure of the abstract state under control-flow propagation
	pairs := 0
	if fi != nil {
		lastOf := func(b *ssa.BasicBlock) ssa.Instruction {
			for k := len(b.Instrs) - 1; k >= 0; k-- {
				if _, ok := fi.InstrID[b.Instrs[k]]; ok {
					return b.Instrs[k]
				}
			}
			return nil
		}
		var values []ssa.Value
		for v := range fi.ValueID {
			values = append(values, v)
		}
		check := func(p, i ssa.Instruction) {
			if p == nil || i == nil {
				return
			}
			for _, v := range values {
				pp, ok1 := fi.GetPos(p, v)
				ip, ok2 := fi.GetPos(i, v)
				if !ok1 || !ok2 || int(pp) >= len(fi.MarkedValues) || int(ip) >= len(fi.MarkedValues) {
					continue
				}
				pa, ia := fi.MarkedValues[pp], fi.MarkedValues[ip]
				if pa == nil {
					continue
				}
				pm := pa.AllMarks()
				if len(pm) == 0 {
					continue
				}
				pairs++
				have := map[string]bool{}
				if ia != nil {
					for _, m := range ia.AllMarks() {
						have[fmt.Sprintf("%p|%s", m.Mark, m.AccessPath)] = true
					}
				}
				for _, m := range pm {
					if !have[fmt.Sprintf("%p|%s", m.Mark, m.AccessPath)] {
						pos := f.Prog.Fset.Position(i.Pos())
						kind := strings.TrimPrefix(fmt.Sprintf("%T", p), "*ssa.")
						if _, isGlobal := v.(*ssa.Global); isGlobal {
							kind += ":global-operand"
						}
						add("state-not-closed:"+kind, fmt.Sprintf("function %s: origin %s attached to value %s after %q is not attached after its successor %q (%s:%d)",
							f.String(), m.Mark.String(), v.Name(), p.String(), i.String(), filepath.Base(pos.Filename), pos.Line))
						return
					}
				}
			}
		}
		for _, b := range f.Blocks {
			var prev ssa.Instruction
			for _, ins := range b.Instrs {
				if _, ok := fi.InstrID[ins]; !ok {
					continue
				}
				if prev != nil {
					check(prev, ins)
				} else {
					for _, pb := range b.Preds {
						check(lastOf(pb), ins)
					}
				}
				prev = ins
			}
		}
	}
	return obligations, pairs
}

// C08 — function summaries cover every direct def-use chain; the abstract state is closed under propagation.
func C08(tier string) {
	run := core.NewRun("C08", tier)
	type target struct {
		name, dir, re string
		max           int
		fs            bool
		files         map[string]string
	}
	var targets []target
	links := gen.AllLinks(nil, []string{"conc", "guard"})
	nGen := 2
	stdRe := `^(vprog|strings|strconv|bytes|sort|errors|path|unicode/utf8|bufio|container/list)`
	maxI := 1500
	if tier == "thorough" {
		nGen = 6
		// (`.*` would run the intra-procedural analysis over the whole standard library from its bodies: every
		// target then ends in the watchdog; a wider but bounded set of packages is the feasible "thorough")
		stdRe = `^(vprog|strings|strconv|bytes|sort|errors|path|unicode/utf8|bufio|container/list|io|sync|encoding/hex|encoding/base64|net/url|text/tabwriter|path/filepath)`
		maxI = 3000
	}
	if tier == "smoke" {
		nGen = 1
		stdRe = `^(vprog|strings)`
	}
	r := core.NewRNG(run.SeedV, "c08-"+tier)
	for p := 0; p < nGen; p++ {
		var chains []gen.Chain
		for i := 0; i < 40; i++ {
			n := 1 + r.Intn(3)
			var l []string
			for j := 0; j < n; j++ {
				l = append(l, links[r.Intn(len(links))])
			}
			chains = append(chains, gen.Chain{ID: i + 1, Links: l})
		}
		b := &gen.Batch{Chains: chains}
		dir := filepath.Join(run.Scratch, fmt.Sprintf("gen%02d", p))
		files := b.Files()
		if err := gen.WriteProgram(dir, files); err != nil {
			run.Inconclusive(err.Error())
			continue
		}
		targets = append(targets, target{fmt.Sprintf("gen%02d", p), dir, stdRe, maxI, p%2 == 1, files})
	}
	{
		dir := filepath.Join(run.Scratch, "ops")
		files := map[string]string{"main.go": c08OpsProgram}
		if err := gen.WriteProgram(dir, files); err == nil {
			targets = append(targets, target{"ops", dir, `^vprog$`, maxI, false, files})
		}
	}
	reals := realTaintPrograms("taint")
	if tier != "thorough" {
		var sel []string
		for _, d := range reals {
			switch filepath.Base(d) {
			case "basic", "closures", "fields":
				sel = append(sel, d)
			}
		}
		reals = sel
		if tier == "smoke" {
			reals = nil
		}
	}
	for _, d := range reals {
		targets = append(targets, target{"repo-" + filepath.Base(d), d, `.*`, maxI, false, nil})
	}
	if tier == "thorough" {
		root := "/repo"
		if rr := os.Getenv("VERIF_REPO"); rr != "" {
			root = rr
		}
		targets = append(targets, target{"repo-cmd-argot", filepath.Join(root, "cmd/argot"), `.*`, maxI, false, nil})
	}
	var mu sync.Mutex
	funcs, obls, pairs := 0, 0, 0
	core.Parallel(len(targets), 3, func(ti int) {
		t := targets[ti]
		work := filepath.Join(run.Scratch, "work-"+t.name)
		_ = os.MkdirAll(work, 0o755)
		job := &SummaryJob{Dir: t.dir, PkgRegex: t.re, MaxInstrs: t.max, FieldSens: t.fs, Out: filepath.Join(work, "out.json")}
		jf := filepath.Join(work, "job.json")
		core.WriteJSON(jf, job)
		cr := SpawnWorker("summary", jf, 0)
		if cr.Status != "ok" {
			data, _ := os.ReadFile(cr.LogFile)
			if cr.Status == "panic" {
				run.Violation("analyzer-panic:"+t.name, "intra-procedural analysis crashed: "+tailStr(string(data), 3000), map[string]string{"log.txt": tailStr(string(data), 20000)})
			} else {
				run.Inconclusive(t.name + ": worker " + cr.Status)
			}
			return
		}
		var res SummaryResult
		if err := core.ReadJSON(job.Out, &res); err != nil {
			run.Inconclusive(t.name + ": " + err.Error())
			return
		}
		if strings.HasPrefix(res.Err, "load:") && strings.HasPrefix(t.name, "repo-") {
			return
		}
		if res.Err != "" {
			run.Inconclusive(t.name + ": " + res.Err)
			return
		}
		mu.Lock()
		funcs += res.Functions
		obls += res.Obligations
		pairs += res.StatePairs
		mu.Unlock()
		run.Eval(res.Functions)
		if res.Obligations > 0 {
			run.Distinct(t.name)
		}
		for _, fd := range res.Findings {
			if run.IsKnown(fd.Sig) {
				continue
			}
			files := map[string]string{"program.txt": t.dir, "detail.txt": fd.Detail}
			if t.files != nil {
				for n, c := range withRT(t.files) {
					files[n] = c
				}
			}
			run.Violation(fd.Sig, fmt.Sprintf("program %s: %s", t.name, fd.Detail), files)
		}
		if ti == 0 {
			run.Sample(map[string]any{"program": t.name, "functions": res.Functions, "def_use_obligations": res.Obligations, "state_pairs": res.StatePairs})
		}
	})
	for i := 0; i < obls && i < 100000; i += 1 + obls/2000 {
		run.Distinct(fmt.Sprintf("obl-%d", i))
	}
	run.Cov["functions_summarised"] = funcs
	run.Cov["def_use_obligations_checked"] = obls
	run.Cov["state_closure_pairs_checked"] = pairs
	run.Cov["targets"] = len(targets)
	run.Assumptions = append(run.Assumptions, "reference relation: graph reachability over SSA operands through exactly the value-computing instruction kinds listed in the property (independent ~150-line walker)",
		"the real dataflow.IntraProceduralAnalysis is run per function through its public entry point; the final FlowInformation is captured through the public post-block callback")
	run.Finish("exploration", "every reachable function (package filter and size cap per tier) of generated programs and of the repository's test programs is summarised by the real intra-procedural analysis; "+
		"(i) every origin->use pair of the SSA def-use reference relation must be an edge of the summary, (ii) marks attached to a value after an instruction must be attached after each CFG successor; "+
		"non-trivial = function/obligation with at least one origin->use pair")
}

// c08OpsProgram exercises every value-computing instruction kind of the property on tracked data (unary and binary
// operators on integers, floats, complex numbers and strings, conversions, field/index selection, slicing, extraction,
// boxing, assertions, phis incl. loop-carried self-feeding calls, builtins).
const c08OpsProgram = `package main

import "vprog/rt"

type P struct {
	a, b int
	s    []int
	m    map[string]int
}

func neg(x int) int          { return -x }
func compl(x int) int        { return ^x }
func not(b bool) bool        { return !b }
func andnot(x, m int) int    { return x &^ m }
func shifts(x int, n uint) int { return x<<n | x>>n }
func arith(x, y int) int     { return (x+y)*(x-y)/(y|1) % 7 }
func cmp(x, y int) bool      { return x < y || x == y }
func fl(x float64) float64   { return -x * 2.5 }
func cx(x float64) float64   { c := complex(x, 1); return real(c) + imag(c*c) }
func conv(x int) string      { return string(rune(x)) }
func conv2(x int32) float64  { return float64(int64(x)) }
func str(a, b string) string { return a + b[1:] }
func field(p P) int          { return p.a }
func fieldptr(p *P) int      { return p.b }
func index(a [3]int, i int) int { return a[i] }
func sliceidx(s []int) int   { return s[0] }
func lookup(m map[string]int, k string) int { return m[k] }
func lookup2(m map[string]int, k string) (int, bool) { v, ok := m[k]; return v, ok }
func slicing(s []int) []int  { return s[1:2:3] }
func box(x int) any          { return x }
func unbox(a any) int        { return a.(int) }
func unbox2(a any) (int, bool) { v, ok := a.(int); return v, ok }
func arrptr(s []int) *[2]int { return (*[2]int)(s) }
func mins(a, b, c int) int   { return min(a, max(b, c)) }
func app(s []int, x int) []int { return append(s, x) }
func cond(x int) int {
	if compl(x) > 0 {
		return 1
	}
	return 0
}
func phi(x, y int, c bool) int {
	r := x
	if c {
		r = y
	}
	return r
}
func step(x int) int { return x + 1 }
func selfFeed(x int, n int) int {
	for i := 0; i < n; i++ {
		x = step(x)
	}
	return x
}
func fix(x int) int {
	for {
		y := step(x)
		if y == x {
			return y
		}
		x = y
	}
}
func checksum(data []byte, seed uint32) uint32 {
	crc := ^seed
	for _, b := range data {
		crc = crc>>8 ^ uint32(b)
	}
	return ^crc
}
func shift10(x int, n int) int {
	a, b, c, d, e, f, g, h, i, j := 0, 0, 0, 0, 0, 0, 0, 0, 0, 0
	for k := 0; k < n; k++ {
		j = i + 1
		i = h + 1
		h = g + 1
		g = f + 1
		f = e + 1
		e = d + 1
		d = c + 1
		c = b + 1
		b = a + 1
		a = x + 1
	}
	return j
}
func shift10par(x int, n int) int {
	a, b, c, d, e, f, g, h, i, j := 0, 0, 0, 0, 0, 0, 0, 0, 0, 0
	for k := 0; k < n; k++ {
		j, i, h, g, f, e, d, c, b, a = i, h, g, f, e, d, c, b, a, x
	}
	return j
}
func shiftNested(x int, n int) int {
	a, b, c, d, e, f := 0, 0, 0, 0, 0, 0
	for k := 0; k < n; k++ {
		for l := 0; l < k; l++ {
			f = e ^ 1
			e = d ^ 1
			d = c ^ 1
		}
		c = b ^ 1
		b = a ^ 1
		a = x ^ 1
	}
	return f
}
func swapLoop(x, y int, n int) int {
	p, q, r := x, 0, 0
	for k := 0; k < n; k++ {
		if k%2 == 0 {
			p, q = q, p
		} else {
			q, r = r, q
		}
	}
	return r + y
}
func closureBind(x int) func() int { y := ^x; return func() int { return y } }
func tuple(x int) (int, int)       { return x, -x }
func useTuple(x int) int {
	a, b := tuple(x)
	return a ^ b
}

func main() {
	defer rt.Done()
	v := len(rt.Source(1))
	p := P{a: v, b: v, s: []int{v}, m: map[string]int{"k": v}}
	r := neg(v) + compl(v) + andnot(v, 3) + shifts(v, 2) + arith(v, 2) + field(p) + fieldptr(&p) + index([3]int{v}, 0) + sliceidx(p.s) +
		lookup(p.m, "k") + unbox(box(v)) + mins(v, 1, 2) + cond(v) + phi(v, 1, not(cmp(v, 2))) + selfFeed(v, 2) + fix(v) + useTuple(v) + closureBind(v)() + shift10(v, 12) + shift10par(v, 12) + shiftNested(v, 9) + swapLoop(v, 1, 5)
	a, _ := lookup2(p.m, "k")
	b, _ := unbox2(v)
	rt.Sink(1, []any{r, a, b, fl(float64(v)), cx(float64(v)), conv(v), conv2(int32(v)), str("a", rt.Source(2)), slicing([]int{v, v, v}), arrptr([]int{v, v}), app(nil, v), checksum([]byte(rt.Source(3)), uint32(v))})
}
`
