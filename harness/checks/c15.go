package checks

import (
	"fmt"
	"os"
	"path/filepath"
	"sort"
	"strings"
	"sync"
	"time"

	"github.com/awslabs/ar-go-tools/analysis/config"
	"github.com/awslabs/ar-go-tools/analysis/dataflow"
	"github.com/awslabs/ar-go-tools/analysis/escape"
	"golang.org/x/tools/go/ssa"

	"verif/harness/ana"
	"verif/harness/core"
	"verif/harness/gen"
)

// LatticeJob asks the worker to run the escape analysis with monitors on.
type LatticeJob struct {
	Dir       string `json:"dir"`
	Perms     int    `json:"perms"` // number of permuted re-runs
	Seed      int64  `json:"seed"`
	MaxTriple int    `json:"max_triple"`
	Out       string `json:"out"`
}

// LatticeResult is the worker's answer.
type LatticeResult struct {
	LawViolations  []string `json:"law_violations"`
	MonoViolations []string `json:"mono_violations"`
	PermDiffs      []string `json:"perm_diffs"`
	Pairs          int      `json:"pairs"`
	Triples        int      `json:"triples"`
	Functions      int      `json:"functions"`
	MonoInstrs     int      `json:"mono_instrs"`
	MonoGraphs     int      `json:"mono_graphs"`
	PermRuns       int      `json:"perm_runs"`
	LocalityFacts  int      `json:"locality_facts"`
	Err            string   `json:"err,omitempty"`
}

func escapeStateFor(l *ana.Loaded) (*dataflow.AnalyzerState, error) {
	cfg := config.NewDefault()
	cfg.LogLevel = int(config.ErrLevel)
	cfg.UseEscapeAnalysis = true
	// confine summarisation to the program's own packages (the self-check retains every pre/post graph)
	cfg.EscapeConfig.PkgFilter = "vprog"
	state, err := dataflow.NewInitializedAnalyzerState(l.Prog, l.Pkgs, config.NewLogGroup(cfg), cfg)
	if err != nil {
		return nil, err
	}
	if err := escape.InitializeEscapeAnalysisState(state); err != nil {
		return nil, err
	}
	return state, nil
}

// localityFacts returns the observable result: locality of every instruction of the program's own functions in
// their arbitrary context, keyed by function, position and instruction text.
func localityFacts(l *ana.Loaded, state *dataflow.AnalyzerState) map[string]bool {
	out := map[string]bool{}
	ea := state.EscapeAnalysisState
	for f := range state.PointerAnalysis.CallGraph.Nodes {
		if f == nil || f.Pkg == nil || !strings.HasPrefix(f.Pkg.Pkg.Path(), "vprog") || strings.HasSuffix(f.Pkg.Pkg.Path(), "/rt") || len(f.Blocks) == 0 || !ea.IsSummarized(f) {
			continue
		}
		loc, _ := ea.ComputeInstructionLocalityAndCallsites(f, ea.ComputeArbitraryContext(f))
		for ins, r := range loc {
			if memAccessKind(ins) == "" {
				continue
			}
			pos := l.Prog.Fset.Position(ins.Pos())
			out[fmt.Sprintf("%s|%d|%s", f.String(), pos.Line, ins.String())] = r == nil
		}
	}
	return out
}

func init() {
	extraWorkers["lattice"] = func(jobFile string) {
		var job LatticeJob
		if err := core.ReadJSON(jobFile, &job); err != nil {
			fmt.Fprintln(os.Stderr, err)
			os.Exit(2)
		}
		res := &LatticeResult{}
		l, err := ana.Load(job.Dir, true)
		if err != nil {
			res.Err = "load: " + err.Error()
			core.WriteJSON(job.Out, res)
			return
		}
		// run 1: monotonicity self-check on, graphs captured
		escape.VerifSetMonoCheck(true)
		escape.VerifSetWorklistPerm(nil, nil)
		state, err := escapeStateFor(l)
		if err != nil {
			res.Err = "escape: " + err.Error()
			core.WriteJSON(job.Out, res)
			return
		}
		res.MonoViolations, res.MonoInstrs, res.MonoGraphs = escape.VerifMonoViolations()
		groups := escape.VerifCapturedGraphs(state.EscapeAnalysisState, 40)
		rng := core.NewRNG(job.Seed, "lattice")
		law := func(s string) {
			if len(res.LawViolations) < 50 {
				res.LawViolations = append(res.LawViolations, s)
			}
		}
		for _, g := range groups {
			if !strings.HasPrefix(g.Function.String(), "vprog") && !strings.HasPrefix(g.Function.String(), "(vprog") && !strings.HasPrefix(g.Function.String(), "(*vprog") {
				continue
			}
			res.Functions++
			gs := g.Graphs
			fn := g.Function.String()
			for i := range gs {
				a := gs[i]
				m := a.Clone()
				m.Merge(a)
				if !m.Matches(a) {
					law(fmt.Sprintf("%s: merge is not idempotent on graph #%d", fn, i))
				}
				if le, why := a.LessEqual(a); !le {
					law(fmt.Sprintf("%s: ordering is not reflexive on graph #%d: %s", fn, i, why))
				}
			}
			np := 0
			for i := 0; i < len(gs) && np < 120; i++ {
				for j := i + 1; j < len(gs) && np < 120; j++ {
					np++
					a, b := gs[i], gs[j]
					ab := a.Clone()
					ab.Merge(b)
					ba := b.Clone()
					ba.Merge(a)
					res.Pairs++
					if !ab.Matches(ba) {
						law(fmt.Sprintf("%s: merge is not commutative on graphs #%d,#%d", fn, i, j))
					}
					if le, why := a.LessEqual(ab); !le {
						law(fmt.Sprintf("%s: merge is not an upper bound of its left operand (#%d,#%d): %s", fn, i, j, why))
					}
					if le, why := b.LessEqual(ab); !le {
						law(fmt.Sprintf("%s: merge is not an upper bound of its right operand (#%d,#%d): %s", fn, i, j, why))
					}
				}
			}
			for t := 0; t < job.MaxTriple && len(gs) >= 3; t++ {
				i, j, k := rng.Intn(len(gs)), rng.Intn(len(gs)), rng.Intn(len(gs))
				a, b, c := gs[i], gs[j], gs[k]
				l1 := a.Clone()
				l1.Merge(b)
				l1.Merge(c)
				bc := b.Clone()
				bc.Merge(c)
				r1 := a.Clone()
				r1.Merge(bc)
				res.Triples++
				if !l1.Matches(r1) {
					law(fmt.Sprintf("%s: merge is not associative on graphs #%d,#%d,#%d", fn, i, j, k))
				}
			}
		}
		base := localityFacts(l, state)
		baseSizes := escape.VerifSummarySizes(state.EscapeAnalysisState)
		res.LocalityFacts = len(base)
		// permuted re-runs: the observable result must not depend on worklist order
		escape.VerifSetMonoCheck(false)
		for p := 0; p < job.Perms; p++ {
			prng := core.NewRNG(job.Seed*1000+int64(p), "perm")
			escape.VerifSetWorklistPerm(func(n int) []int { return prng.Perm(n) }, func(n int) []int { return prng.Perm(n) })
			st2, err := escapeStateFor(l)
			if err != nil {
				res.PermDiffs = append(res.PermDiffs, fmt.Sprintf("permuted run %d failed: %v", p, err))
				continue
			}
			res.PermRuns++
			cur := localityFacts(l, st2)
			var diffs []string
			for k, v := range base {
				if cv, ok := cur[k]; !ok || cv != v {
					diffs = append(diffs, fmt.Sprintf("%s: local=%v in the default order, %v (present=%v) under permutation %d", k, v, cv, ok, p))
				}
			}
			for k := range cur {
				if _, ok := base[k]; !ok {
					diffs = append(diffs, fmt.Sprintf("%s: only present under permutation %d", k, p))
				}
			}
			sizes := escape.VerifSummarySizes(st2.EscapeAnalysisState)
			for f, s := range baseSizes {
				if !strings.Contains(f, "vprog") {
					continue
				}
				if s2, ok := sizes[f]; !ok || s2 != s {
					diffs = append(diffs, fmt.Sprintf("final summary of %s has (edges,nodes,non-local)=%v in the default order and %v under permutation %d", f, s, s2, p))
				}
			}
			sort.Strings(diffs)
			if len(diffs) > 0 && len(res.PermDiffs) < 20 {
				res.PermDiffs = append(res.PermDiffs, diffs[0])
			}
		}
		escape.VerifSetWorklistPerm(nil, nil)
		core.WriteJSON(job.Out, res)
	}
}

var _ ssa.Instruction

// C15 — escape graphs form a join-semilattice, transfer functions are monotone, the fixpoint is order-independent.
func C15(tier string) {
	run := core.NewRun("C15", tier)
	type target struct {
		name  string
		files map[string]string
	}
	var targets []target
	// racy programs (rich escape behaviour) and concurrent chain batches
	var all []gen.RacyCase
	n := 1
	for s := range gen.Shares {
		for a := 0; a < len(gen.Accesses); a += 3 {
			all = append(all, gen.RacyCase{N: n, Share: s, GAcc: a, MAcc: (a + 1) % len(gen.Accesses)})
			n++
		}
	}
	nRacy, nChains, perms, triples := 2, 1, 3, 20
	if tier == "thorough" {
		nRacy, nChains, perms, triples = 6, 6, 12, 200
	}
	if tier == "smoke" {
		nRacy, nChains, perms = 1, 0, 1
	}
	per := (len(all) + nRacy - 1) / nRacy
	for i := 0; i < nRacy; i++ {
		lo, hi := i*per, (i+1)*per
		if hi > len(all) {
			hi = len(all)
		}
		targets = append(targets, target{fmt.Sprintf("racy%d", i), gen.RenderRacyProgram(all[lo:hi])})
	}
	if tier != "smoke" {
		targets = append(targets, target{"escshapes", gen.RenderEscapeShapes()})
	}
	links := gen.AllLinks(nil, []string{"guard"})
	r := core.NewRNG(run.SeedV, "c15-"+tier)
	for p := 0; p < nChains; p++ {
		var chains []gen.Chain
		for i := 0; i < 25; i++ {
			var l []string
			for j := 1 + r.Intn(2); j > 0; j-- {
				l = append(l, links[r.Intn(len(links))])
			}
			chains = append(chains, gen.Chain{ID: i + 1, Links: l})
		}
		targets = append(targets, target{fmt.Sprintf("chains%d", p), (&gen.Batch{Chains: chains}).Files()})
	}
	var mu sync.Mutex
	pairs, triplesN, funcs, monoI, monoG, permRuns, facts := 0, 0, 0, 0, 0, 0, 0
	core.Parallel(len(targets), 3, func(ti int) {
		t := targets[ti]
		dir := filepath.Join(run.Scratch, t.name)
		if err := gen.WriteProgram(dir, t.files); err != nil {
			run.Inconclusive(err.Error())
			return
		}
		job := &LatticeJob{Dir: dir, Perms: perms, Seed: run.SeedV, MaxTriple: triples, Out: filepath.Join(dir, "lattice.out.json")}
		jf := filepath.Join(dir, "lattice.job.json")
		core.WriteJSON(jf, job)
		cr := SpawnWorker("lattice", jf, 25*time.Minute)
		var res LatticeResult
		if cr.Status != "ok" || core.ReadJSON(job.Out, &res) != nil || res.Err != "" {
			data, _ := os.ReadFile(cr.LogFile)
			if cr.Status == "panic" {
				run.Violation("analyzer-panic:"+t.name, "escape analysis crashed: "+tailStr(string(data), 3000), withRT(t.files))
			} else {
				run.Inconclusive("lattice worker " + cr.Status + " " + res.Err)
			}
			return
		}
		mu.Lock()
		pairs += res.Pairs
		triplesN += res.Triples
		funcs += res.Functions
		monoI += res.MonoInstrs
		monoG += res.MonoGraphs
		permRuns += res.PermRuns
		facts += res.LocalityFacts
		mu.Unlock()
		run.Eval(res.Pairs + res.Triples + res.MonoGraphs)
		for i := 0; i < res.Pairs; i += 1 + res.Pairs/300 {
			run.Distinct(fmt.Sprintf("%s-pair-%d", t.name, i))
		}
		for _, v := range res.LawViolations {
			sig := "lattice-law:" + lawKind(v)
			if !run.IsKnown(sig) {
				run.Violation(sig, t.name+": "+v, withRT(t.files))
			}
		}
		for _, v := range res.MonoViolations {
			sig := "not-monotone:" + strings.Fields(v)[0]
			if !run.IsKnown(sig) {
				run.Violation(sig, t.name+": the transfer function is not monotone: "+v, withRT(t.files))
			}
		}
		for _, v := range res.PermDiffs {
			sig := "order-dependent"
			if !run.IsKnown(sig) {
				run.Violation(sig, t.name+": the result depends on the worklist order: "+v, withRT(t.files))
			}
		}
		if ti == 0 {
			run.Sample(map[string]any{"program": t.name, "functions": res.Functions, "graph_pairs": res.Pairs, "triples": res.Triples, "mono_instruction_graphs": res.MonoGraphs, "permuted_runs": res.PermRuns, "locality_facts_compared": res.LocalityFacts})
		}
	})
	run.Cov["functions_with_captured_graphs"] = funcs
	run.Cov["graph_pairs_checked"] = pairs
	run.Cov["graph_triples_checked"] = triplesN
	run.Cov["instructions_under_monotonicity_self_check"] = monoI
	run.Cov["pre_post_graphs_retained"] = monoG
	run.Cov["permuted_runs"] = permRuns
	run.Cov["locality_facts_compared_per_permutation"] = facts
	run.Assumptions = append(run.Assumptions, "graphs are the ones that arise during the real analysis (initial, block-end, final, per-instruction pre/post); laws are checked with the analysis' own Merge/Matches/LessEqual",
		"monotonicity is checked by the code's own per-instruction self-check (enabled through the hook) on naturally ordered graphs of successive iterations; escape summarisation is confined to the program's packages")
	run.Finish("exploration", "escape analysis of racy programs and chain batches with monitors on: lattice laws (idempotence, commutativity, associativity, upper bound, reflexivity) on pairs/triples of captured graphs of the same function; "+
		"per-instruction monotonicity self-check across fixpoint iterations; seeded permutations of the block and function worklists must leave instruction locality and summary sizes unchanged; distinct non-trivial = graph pairs compared")
}

func lawKind(v string) string {
	for _, k := range []string{"idempotent", "reflexive", "commutative", "upper bound", "associative"} {
		if strings.Contains(v, k) {
			return strings.ReplaceAll(k, " ", "-")
		}
	}
	return "other"
}
