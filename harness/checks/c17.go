package checks

import (
	"encoding/json"
	"fmt"
	"os"
	"path/filepath"
	"runtime"
	"sort"
	"strings"
	"sync"

	"github.com/awslabs/ar-go-tools/analysis"
	"github.com/awslabs/ar-go-tools/analysis/config"
	"github.com/awslabs/ar-go-tools/analysis/dataflow"
	"github.com/awslabs/ar-go-tools/analysis/taint"
	"golang.org/x/tools/go/ssa"

	"verif/harness/ana"
	"verif/harness/core"
	"verif/harness/gen"
)

// graphViolation is one structural inconsistency found by the invariant monitor.
type graphViolation struct {
	Sig    string `json:"sig"`
	Detail string `json:"detail"`
}

// graphStats counts what the monitor walked.
type graphStats struct {
	Summaries, Nodes, OutEdges, InEdges, CallLinks, ClosureLinks, GlobalLocs, Points, ContractGraphs int
}

func nodeDesc(n dataflow.GraphNode) string {
	if n == nil {
		return "<nil>"
	}
	g := n.Graph()
	fn := "?"
	if g != nil && g.Parent != nil {
		fn = g.Parent.String()
	}
	return fmt.Sprintf("%T(%s in %s)", n, n.String(), fn)
}

func nodeKind(n dataflow.GraphNode) string {
	s := fmt.Sprintf("%T", n)
	return strings.TrimPrefix(s, "*dataflow.")
}

// checkGraph walks every summary of the inter-procedural graph and checks the consistency invariants of C17
// through public accessors only.
func checkGraph(state *dataflow.AnalyzerState, st *graphStats, add func(sig, detail string)) {
	fg := state.FlowGraph
	if fg == nil {
		return
	}
	st.Points++
	inGraph := map[dataflow.GraphNode]bool{}
	allNodes := func(s *dataflow.SummaryGraph, f func(n dataflow.GraphNode)) {
		s.ForAllNodes(f)
		for _, n := range s.Ifs {
			f(n)
		}
	}
	for _, s := range fg.Summaries {
		if s == nil {
			continue
		}
		st.Summaries++
		allNodes(s, func(n dataflow.GraphNode) { inGraph[n] = true })
	}
	// the graphs to walk: every summary of the inter-procedural graph plus the dataflow-contract graphs
	// (interface contracts live in the analyzer state, and call nodes may be linked to them)
	graphs := map[*dataflow.SummaryGraph]*ssa.Function{}
	for fn, s := range fg.Summaries {
		if s != nil {
			graphs[s] = fn
		}
	}
	for _, s := range state.DataFlowContracts {
		if s != nil {
			st.ContractGraphs++
			if _, ok := graphs[s]; !ok {
				graphs[s] = s.Parent
				allNodes(s, func(n dataflow.GraphNode) { inGraph[n] = true })
			}
		}
	}
	for s, fn := range graphs {
		allNodes(s, func(n dataflow.GraphNode) {
			st.Nodes++
			for m, infos := range n.Out() {
				st.OutEdges++
				in, ok := m.In()[n]
				if !ok {
					add("out-without-in:"+nodeKind(n)+">"+nodeKind(m), fmt.Sprintf("edge %s -> %s is recorded as outgoing but not as incoming at its target", nodeDesc(n), nodeDesc(m)))
					continue
				}
				idx := map[int]bool{}
				for _, e := range infos {
					idx[e.Index] = true
				}
				if !idx[in.Index] {
					add("in-index-not-among-out:"+nodeKind(n)+">"+nodeKind(m), fmt.Sprintf("edge %s -> %s: incoming record has tuple index %d, outgoing records have %v", nodeDesc(n), nodeDesc(m), in.Index, keysInt(idx)))
				} else if len(idx) > 1 {
					add("tuple-index-lost:multi", fmt.Sprintf("edge %s -> %s has outgoing records for tuple indices %v but a single incoming record (index %d): In() keeps one EdgeInfo per source node", nodeDesc(n), nodeDesc(m), keysInt(idx), in.Index))
				}
			}
			for m, in := range n.In() {
				st.InEdges++
				infos, ok := m.Out()[n]
				if !ok {
					add("in-without-out:"+nodeKind(m)+">"+nodeKind(n), fmt.Sprintf("edge %s -> %s is recorded as incoming at its target but not as outgoing at its origin", nodeDesc(m), nodeDesc(n)))
					continue
				}
				found := false
				for _, e := range infos {
					if e.Index == in.Index {
						found = true
					}
				}
				if !found {
					add("in-index-not-among-out:"+nodeKind(m)+">"+nodeKind(n), fmt.Sprintf("edge %s -> %s: incoming tuple index %d has no outgoing record", nodeDesc(m), nodeDesc(n), in.Index))
				}
			}
			switch x := n.(type) {
			case *dataflow.CallNode:
				if x.CalleeSummary != nil {
					st.CallLinks++
					if c := x.CalleeSummary.Callsites[x.CallSite()]; c == nil {
						add("call-not-registered", fmt.Sprintf("call node %s is linked to the summary of %s but is not among that summary's call sites", nodeDesc(x), x.CalleeSummary.Parent))
					}
				}
			case *dataflow.ClosureNode:
				if x.Instr() != nil {
					if cf, ok := x.Instr().Fn.(*ssa.Function); ok {
						want := fg.Summaries[cf]
						if want != nil {
							st.ClosureLinks++
							if x.ClosureSummary != want {
								add("closure-unlinked", fmt.Sprintf("closure node %s is not linked to the existing summary of %s", nodeDesc(x), cf))
							} else if want.ReferringMakeClosures[x.Instr()] != x {
								add("closure-not-registered", fmt.Sprintf("closure node %s is linked to the summary of %s but not registered among its referring MakeClosures", nodeDesc(x), cf))
							}
						}
					}
				}
			case *dataflow.BoundLabelNode:
				// only asserted for eagerly built graphs: with on-demand summarisation the traversal resolves
				// the destination closure lazily (and the statement does not list bound labels)
				if mc := x.DestInfo().MakeClosure; mc != nil && !state.Config.SummarizeOnDemand {
					if cf, ok := mc.Fn.(*ssa.Function); ok {
						if want := fg.Summaries[cf]; want != nil && x.DestClosure() != want {
							add("boundlabel-unlinked", fmt.Sprintf("bound-label node %s does not point to the existing summary of %s", nodeDesc(x), cf))
						}
					}
				}
			case *dataflow.AccessGlobalNode:
				if x.Global != nil && s.Constructed {
					st.GlobalLocs++
					if x.IsWrite && !x.Global.WriteLocations[x] {
						add("global-write-unregistered", fmt.Sprintf("write access %s of a built summary is not in the global's write locations", nodeDesc(x)))
					}
					if !x.IsWrite && len(x.Out()) > 0 && !x.Global.ReadLocations[x] {
						add("global-read-unregistered", fmt.Sprintf("read access %s of a built summary is not in the global's read locations", nodeDesc(x)))
					}
				}
			}
		})
		for instr, c := range s.Callsites {
			if c == nil {
				continue
			}
			if c.CalleeSummary != s {
				add("callsite-foreign", fmt.Sprintf("summary of %s lists call site %v whose call node is linked to another summary", fn, instr))
			} else if c.CallSite() != instr {
				add("callsite-key-mismatch", fmt.Sprintf("summary of %s: call-site key differs from the node's call site", fn))
			}
		}
		for instr, cl := range s.ReferringMakeClosures {
			if cl == nil {
				continue
			}
			if cl.ClosureSummary != s {
				add("referring-closure-foreign", fmt.Sprintf("summary of %s lists MakeClosure %v whose closure node is linked elsewhere", fn, instr))
			}
		}
	}
	for g, gn := range state.Globals {
		if gn == nil {
			continue
		}
		for loc := range gn.WriteLocations {
			if !inGraph[loc] {
				add("global-write-dangling", fmt.Sprintf("global %s lists a write location that is not a node of any summary in the graph: %s", g, nodeDesc(loc)))
			} else if a, ok := loc.(*dataflow.AccessGlobalNode); !ok || !a.IsWrite || a.Global != gn {
				add("global-write-wrong", fmt.Sprintf("global %s lists %s among its write locations", g, nodeDesc(loc)))
			}
		}
		for loc := range gn.ReadLocations {
			if !inGraph[loc] {
				add("global-read-dangling", fmt.Sprintf("global %s lists a read location that is not a node of any summary in the graph: %s", g, nodeDesc(loc)))
			} else if a, ok := loc.(*dataflow.AccessGlobalNode); !ok || a.IsWrite || a.Global != gn {
				add("global-read-wrong", fmt.Sprintf("global %s lists %s among its read locations", g, nodeDesc(loc)))
			}
		}
	}
}

func keysInt(m map[int]bool) []int {
	var l []int
	for k := range m {
		l = append(l, k)
	}
	sort.Ints(l)
	return l
}

// monitoredVisitor wraps a dataflow.Visitor and runs the monitor after every entry point.
type monitoredVisitor struct {
	inner dataflow.Visitor
	after func(s *dataflow.AnalyzerState)
}

func (m *monitoredVisitor) Visit(s *dataflow.AnalyzerState, entry dataflow.NodeWithTrace) {
	m.inner.Visit(s, entry)
	m.after(s)
}

type configT = config.Config

// runTaintWithVisitor replicates the driver sequence of taint.Analyze with a caller-supplied visitor wrapper.
func runTaintWithVisitor(l *ana.Loaded, cfg *config.Config, wrap func(inner dataflow.Visitor) dataflow.Visitor) error {
	state, err := dataflow.NewInitializedAnalyzerState(l.Prog, l.Pkgs, config.NewLogGroup(cfg), cfg)
	if err != nil {
		return err
	}
	if err := taint.AnalysisPreamble(state); err != nil {
		return err
	}
	n := runtime.NumCPU() - 1
	if n <= 0 {
		n = 1
	}
	analysis.RunIntraProceduralPass(state, n, analysis.IntraAnalysisParams{
		ShouldBuildSummary: dataflow.ShouldBuildSummary,
		ShouldTrack:        taint.IsNodeOfInterest,
	})
	for i := range state.Config.TaintTrackingProblems {
		spec := &state.Config.TaintTrackingProblems[i]
		v := wrap(taint.NewVisitor(spec))
		analysis.RunInterProcedural(state, v, analysis.InterProceduralParams{
			IsEntrypoint: func(node ssa.Node) bool { return taint.IsSourceNode(state, spec, node) },
		})
	}
	return nil
}

// runTaintMonitored replicates the driver sequence of taint.Analyze (public entry points only) with a visitor
// wrapper that calls `after` at every quiescent point: after graph construction and after each entry point.
func runTaintMonitored(l *ana.Loaded, cfg *config.Config, after func(s *dataflow.AnalyzerState)) error {
	state, err := dataflow.NewInitializedAnalyzerState(l.Prog, l.Pkgs, config.NewLogGroup(cfg), cfg)
	if err != nil {
		return err
	}
	if err := taint.AnalysisPreamble(state); err != nil {
		return err
	}
	n := runtime.NumCPU() - 1
	if n <= 0 {
		n = 1
	}
	analysis.RunIntraProceduralPass(state, n, analysis.IntraAnalysisParams{
		ShouldBuildSummary: dataflow.ShouldBuildSummary,
		ShouldTrack:        taint.IsNodeOfInterest,
	})
	for i := range state.Config.TaintTrackingProblems {
		spec := &state.Config.TaintTrackingProblems[i]
		v := &monitoredVisitor{inner: taint.NewVisitor(spec), after: after}
		analysis.RunInterProcedural(state, v, analysis.InterProceduralParams{
			IsEntrypoint: func(node ssa.Node) bool { return taint.IsSourceNode(state, spec, node) },
		})
		after(state)
	}
	return nil
}

// GraphJob asks the worker to run monitored analyses.
type GraphJob struct {
	Dir  string         `json:"dir"`
	Runs []TaintRunSpec `json:"runs"`
	Out  string         `json:"out"`
}

// GraphResult is the monitor's answer.
type GraphResult struct {
	Violations []graphViolation      `json:"violations"`
	Stats      map[string]graphStats `json:"stats"`
	Err        string                `json:"err,omitempty"`
}

func init() {
	extraWorkers["graph"] = func(jobFile string) {
		var job GraphJob
		if err := core.ReadJSON(jobFile, &job); err != nil {
			fmt.Fprintln(os.Stderr, err)
			os.Exit(2)
		}
		res := &GraphResult{Stats: map[string]graphStats{}}
		seen := map[string]bool{}
		loaded := map[bool]*ana.Loaded{}
		for _, rs := range job.Runs {
			l := loaded[rs.Rewrites]
			if l == nil {
				var err error
				l, err = ana.Load(job.Dir, rs.Rewrites)
				if err != nil {
					res.Err = "load: " + err.Error()
					core.WriteJSON(job.Out, res)
					return
				}
				loaded[rs.Rewrites] = l
			}
			cfg, err := ana.LoadConfig(rs.Config)
			if err != nil {
				res.Err = "config: " + err.Error()
				core.WriteJSON(job.Out, res)
				return
			}
			st := graphStats{}
			err = runTaintMonitored(l, cfg, func(s *dataflow.AnalyzerState) {
				checkGraph(s, &st, func(sig, detail string) {
					k := rs.Name + "|" + sig
					if !seen[k] {
						seen[k] = true
						res.Violations = append(res.Violations, graphViolation{Sig: sig, Detail: "[" + rs.Name + "] " + detail})
					}
				})
			})
			if err != nil {
				res.Err = "analysis: " + err.Error()
			}
			res.Stats[rs.Name] = st
		}
		core.WriteJSON(job.Out, res)
	}
}

// C17 — dataflow graphs are structurally consistent in both directions.
func C17(tier string) {
	run := core.NewRun("C17", tier)
	var progs []diffProgram
	links := gen.AllLinks(nil, []string{"conc", "guard"})
	r := core.NewRNG(run.SeedV, "c17-"+tier)
	nGen := 4
	if tier == "thorough" {
		nGen = 40
	}
	for p := 0; p < nGen; p++ {
		var chains []gen.Chain
		for i := 0; i < 30; i++ {
			n := 1 + r.Intn(3)
			var l []string
			for j := 0; j < n; j++ {
				l = append(l, links[r.Intn(len(links))])
			}
			chains = append(chains, gen.Chain{ID: i + 1, Links: l})
		}
		b := &gen.Batch{Chains: chains}
		dir := filepath.Join(run.Scratch, fmt.Sprintf("gen%02d", p))
		files := b.Files()
		if err := gen.WriteProgram(dir, files); err != nil {
			run.Inconclusive(err.Error())
			continue
		}
		progs = append(progs, diffProgram{Name: fmt.Sprintf("gen%02d", p), Dir: dir, BaseYAML: ChainCfg{Name: "base", Rewrites: true}.YAML(), OrigDir: dir, Files: files, Batch: b})
	}
	// a program whose functions and interface methods have dataflow specifications, some of them given twice
	// (two specification files defining the same keys with different flows)
	{
		var cases []specCase
		idx := 1
		for _, form := range []string{"direct", "method", "invoke", "funcval"} {
			for _, bits := range []uint64{0x1b5, 0x0ff, 0x155} {
				args, rets := matrixFromBits(bits, 2, 2)
				cases = append(cases, specCase{A: 2, R: 2, Args: args, Rets: rets, Form: form, Body: "all", Bits: bits, Idx: idx})
				idx++
			}
		}
		files, specs := renderSpecProgram(cases)
		// second file: same keys, every flow list emptied
		var parsed []map[string]any
		_ = json.Unmarshal([]byte(specs), &parsed)
		for _, c := range parsed {
			if ms, ok := c["Methods"].(map[string]any); ok {
				for _, m := range ms {
					if mm, ok := m.(map[string]any); ok {
						mm["Args"] = [][]int{{}, {}}
						mm["Rets"] = [][]int{{0}, {}}
					}
				}
			}
		}
		specs2, _ := json.MarshalIndent(parsed, "", " ")
		dir := filepath.Join(run.Scratch, "specs")
		if err := gen.WriteProgram(dir, files); err == nil {
			_ = os.WriteFile(filepath.Join(dir, "specs.json"), []byte(specs), 0o644)
			_ = os.WriteFile(filepath.Join(dir, "specs2.json"), specs2, 0o644)
			y := ChainCfg{Name: "base", Rewrites: true, TopLevel: "dataflow-specs:\n  - \"specs.json\"\n  - \"specs2.json\"\n"}.YAML()
			progs = append(progs, diffProgram{Name: "specs-twice", Dir: dir, BaseYAML: y, OrigDir: dir, Files: files})
		}
	}
	reals := realTaintPrograms("taint")
	if tier != "thorough" {
		var sel []string
		for _, d := range reals {
			switch filepath.Base(d) {
			case "basic", "closures", "globals", "interfaces", "tuples", "defers":
				sel = append(sel, d)
			}
		}
		reals = sel
	}
	for _, d := range reals {
		data, err := os.ReadFile(filepath.Join(d, "config.yaml"))
		if err != nil {
			continue
		}
		progs = append(progs, diffProgram{Name: "repo-" + filepath.Base(d), Dir: d, BaseYAML: string(data), OrigDir: d})
	}
	var mu sync.Mutex
	total := graphStats{}
	core.Parallel(len(progs), 6, func(pi int) {
		p := progs[pi]
		work := filepath.Join(run.Scratch, "work-"+p.Name)
		_ = os.MkdirAll(work, 0o755)
		job := &GraphJob{Dir: p.Dir, Out: filepath.Join(work, "out.json")}
		for _, v := range []cfgVariant{{Name: "eager", Set: map[string]any{}}, {Name: "ondemand", Set: map[string]any{"summarize-on-demand": true}},
			{Name: "eager-fs", Set: map[string]any{"field-sensitive": true}}} {
			if v.Name == "eager-fs" && tier != "thorough" {
				continue
			}
			y, err := deriveConfig(p.BaseYAML, p.OrigDir, work, v.Set)
			if err != nil {
				continue
			}
			cp := filepath.Join(work, "cfg-"+v.Name+".yaml")
			_ = os.WriteFile(cp, []byte(y), 0o644)
			job.Runs = append(job.Runs, TaintRunSpec{Name: v.Name, Config: cp, Rewrites: true})
		}
		jf := filepath.Join(work, "job.json")
		core.WriteJSON(jf, job)
		cr := SpawnWorker("graph", jf, 0)
		if cr.Status != "ok" {
			data, _ := os.ReadFile(cr.LogFile)
			if cr.Status == "panic" {
				run.Violation("analyzer-panic:"+p.Name, "analysis crashed: "+tailStr(string(data), 3000), map[string]string{"log.txt": tailStr(string(data), 20000)})
			} else {
				run.Inconclusive(p.Name + ": worker " + cr.Status)
			}
			return
		}
		var res GraphResult
		if err := core.ReadJSON(job.Out, &res); err != nil {
			run.Inconclusive(p.Name + ": " + err.Error())
			return
		}
		if strings.HasPrefix(res.Err, "load:") && strings.HasPrefix(p.Name, "repo-") {
			return
		}
		if res.Err != "" && !strings.HasPrefix(res.Err, "analysis:") {
			run.Inconclusive(p.Name + ": " + res.Err)
			return
		}
		run.Eval(1)
		mu.Lock()
		for name, st := range res.Stats {
			total.Summaries += st.Summaries
			total.Nodes += st.Nodes
			total.OutEdges += st.OutEdges
			total.InEdges += st.InEdges
			total.CallLinks += st.CallLinks
			total.ClosureLinks += st.ClosureLinks
			total.GlobalLocs += st.GlobalLocs
			total.Points += st.Points
			total.ContractGraphs += st.ContractGraphs
			if st.OutEdges > 0 {
				run.Distinct(p.Name + "/" + name)
			}
		}
		mu.Unlock()
		for _, v := range res.Violations {
			if run.IsKnown(v.Sig) {
				continue
			}
			files := map[string]string{"program.txt": p.Dir, "detail.txt": v.Detail}
			if p.Files != nil {
				for n, c := range withRT(p.Files) {
					files[n] = c
				}
			}
			run.Violation(v.Sig, fmt.Sprintf("program %s: %s", p.Name, v.Detail), files)
		}
		if pi == 0 || p.Name == "specs-twice" {
			run.Sample(map[string]any{"program": p.Name, "stats": res.Stats, "worker_err": res.Err})
		}
	})
	run.Cov["programs"] = len(progs)
	run.Cov["quiescent_points_checked"] = total.Points
	run.Cov["nodes_walked"] = total.Nodes
	run.Cov["out_edges_checked"] = total.OutEdges
	run.Cov["in_edges_checked"] = total.InEdges
	run.Cov["call_links_checked"] = total.CallLinks
	run.Cov["closure_links_checked"] = total.ClosureLinks
	run.Cov["global_access_nodes_checked"] = total.GlobalLocs
	run.Cov["contract_graphs_walked"] = total.ContractGraphs
	run.Assumptions = append(run.Assumptions, "the monitor runs the same driver sequence as taint.Analyze through public entry points, with a visitor wrapper; it reads the graph through public accessors at quiescent points only")
	run.Finish("exploration", "invariant monitor over the live inter-procedural graph at quiescent points (after graph construction, after every entry point, at return), eager and on-demand, on generated chain batches and the repository's taint test programs; "+
		"distinct non-trivial = (program, mode) whose graph had edges; invariants: out<=>in with the same tuple index, call node<=>Callsites, closure node<=>ReferringMakeClosures, bound label->closure, global read/write location sets == access nodes of built summaries")
}
