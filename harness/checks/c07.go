package checks

import (
	"fmt"
	"os"
	"path/filepath"
	"runtime"
	"sort"
	"strconv"
	"strings"
	"sync"
	"sync/atomic"
	"time"

	"github.com/awslabs/ar-go-tools/analysis"
	"github.com/awslabs/ar-go-tools/analysis/config"
	"github.com/awslabs/ar-go-tools/analysis/dataflow"
	"github.com/awslabs/ar-go-tools/analysis/defers"
	"github.com/awslabs/ar-go-tools/analysis/escape"
	"github.com/awslabs/ar-go-tools/analysis/maypanic"
	"github.com/awslabs/ar-go-tools/analysis/reachability"
	"golang.org/x/tools/go/ssa"
	"golang.org/x/tools/go/ssa/ssautil"

	"verif/harness/ana"
	"verif/harness/core"
	"verif/harness/gen"
)

// TermJob asks the worker to run one analysis on one program and report logical step counts.
type TermJob struct {
	Dir      string `json:"dir"`
	Analysis string `json:"analysis"` // taint taint-od taint-fs taint-esc backtrace backtrace-od escape reachability defers maypanic
	Config   string `json:"config"`
	Out      string `json:"out"`
	// Limits: logical step bound per loop-head hook (200x the committed count); the worker stops itself when one is
	// exceeded, so that a diverging analysis is reported after seconds instead of after the wall-clock watchdog.
	Limits map[string]int64 `json:"limits,omitempty"`
}

// TermResult is the worker's answer.
type TermResult struct {
	Steps map[string]int64 `json:"steps"`
	Done  bool             `json:"done"`
	Err   string           `json:"err,omitempty"`
	Info  string           `json:"info,omitempty"`
}

// goid returns the id of the calling goroutine (parsed from the first line of its stack trace).
func goid() int64 {
	var buf [64]byte
	n := runtime.Stack(buf[:], false)
	f := strings.Fields(string(buf[:n]))
	if len(f) < 2 {
		return 0
	}
	id, _ := strconv.ParseInt(f[1], 10, 64)
	return id
}

func init() {
	extraWorkers["term"] = func(jobFile string) {
		var job TermJob
		if err := core.ReadJSON(jobFile, &job); err != nil {
			fmt.Fprintln(os.Stderr, err)
			os.Exit(2)
		}
		res := &TermResult{Steps: map[string]int64{}}
		var mu sync.Mutex
		counts := map[string]*int64{}
		var aborting int32
		var abort func(site string, n, lim int64)
		// per-invocation counts: "<loop>.enter" resets the calling goroutine's counter of "<loop>.step"; the largest
		// value any invocation reached is reported as "<loop>.step#run" (a fixpoint that stops converging in one function
		// is invisible in the total over thousands of functions)
		type runKey struct {
			g    int64
			site string
		}
		runCur := map[runKey]int64{}
		runMax := map[string]*int64{}
		analysis.VerifSetHook(func(site string) {
			if strings.HasSuffix(site, ".enter") {
				k := runKey{goid(), strings.TrimSuffix(site, ".enter") + ".step"}
				mu.Lock()
				runCur[k] = 0
				mu.Unlock()
				return
			}
			mu.Lock()
			c := counts[site]
			if c == nil {
				c = new(int64)
				counts[site] = c
			}
			var rn int64
			var rm *int64
			if strings.HasSuffix(site, ".step") {
				k := runKey{goid(), site}
				if cur, ok := runCur[k]; ok {
					rn = cur + 1
					runCur[k] = rn
					rm = runMax[site]
					if rm == nil {
						rm = new(int64)
						runMax[site] = rm
						counts[site+"#run"] = rm
					}
					if rn > *rm {
						atomic.StoreInt64(rm, rn)
					}
				}
			}
			mu.Unlock()
			n := atomic.AddInt64(c, 1)
			if lim, ok := job.Limits[site]; ok && n > lim && atomic.CompareAndSwapInt32(&aborting, 0, 1) {
				abort(site, n, lim)
			}
			if lim, ok := job.Limits[site+"#run"]; ok && rn > lim && atomic.CompareAndSwapInt32(&aborting, 0, 1) {
				abort(site+"#run", rn, lim)
			}
		})
		var fmu sync.Mutex
		finished := false
		flushLocked := func() {
			mu.Lock()
			for k, v := range counts {
				res.Steps[k] = atomic.LoadInt64(v)
			}
			mu.Unlock()
			core.WriteJSON(job.Out, res)
		}
		flush := func() { // periodic: never after the final write
			fmu.Lock()
			defer fmu.Unlock()
			if !finished {
				flushLocked()
			}
		}
		final := func() {
			fmu.Lock()
			defer fmu.Unlock()
			finished = true
			flushLocked()
		}
		abort = func(site string, n, lim int64) {
			fmu.Lock()
			finished = true
			res.Err = fmt.Sprintf("step-bound: loop %s made more than %d steps", site, lim)
			mu.Lock()
			for k, v := range counts {
				res.Steps[k] = atomic.LoadInt64(v)
			}
			mu.Unlock()
			core.WriteJSON(job.Out, res)
			os.Exit(0)
		}
		// write step counts periodically so that a watchdog kill still leaves evidence of (non-)progress
		go func() {
			for {
				time.Sleep(5 * time.Second)
				flush()
			}
		}()
		l, err := ana.Load(job.Dir, true)
		if err != nil {
			res.Err = "load: " + err.Error()
			res.Done = true
			final()
			return
		}
		loadCfg := func() *config.Config {
			c, err := ana.LoadConfig(job.Config)
			if err != nil {
				c = config.NewDefault()
			}
			return c
		}
		switch job.Analysis {
		case "taint", "taint-od", "taint-fs", "taint-esc":
			tr, _ := l.Taint(loadCfg())
			res.Info = fmt.Sprintf("%d flows err=%q", len(tr.Flows), tailStr(tr.Err, 200))
		case "backtrace", "backtrace-od":
			br, _ := l.Backtrace(loadCfg())
			res.Info = fmt.Sprintf("%d entries err=%q", len(br.Entries), tailStr(br.Err, 200))
		case "escape":
			cfg := config.NewDefault()
			cfg.LogLevel = int(config.ErrLevel)
			cfg.UseEscapeAnalysis = true
			state, err := dataflow.NewInitializedAnalyzerState(l.Prog, l.Pkgs, config.NewLogGroup(cfg), cfg)
			if err == nil {
				err = escape.InitializeEscapeAnalysisState(state)
			}
			if err != nil {
				res.Info = "returned error: " + tailStr(err.Error(), 200)
			} else {
				n := 0
				ea := state.EscapeAnalysisState
				for f := range state.PointerAnalysis.CallGraph.Nodes {
					if f != nil && f.Pkg != nil && strings.HasPrefix(f.Pkg.Pkg.Path(), "vprog") && len(f.Blocks) > 0 && ea.IsSummarized(f) {
						ea.ComputeInstructionLocalityAndCallsites(f, ea.ComputeArbitraryContext(f))
						n++
					}
				}
				res.Info = fmt.Sprintf("locality of %d functions", n)
			}
		case "reachability":
			cfg := config.NewDefault()
			cfg.LogLevel = int(config.ErrLevel)
			state, err := dataflow.NewAnalyzerState(l.Prog, l.Pkgs, config.NewLogGroup(cfg), cfg, []func(*dataflow.AnalyzerState){})
			if err != nil {
				res.Info = "returned error: " + err.Error()
			} else {
				tot := 0
				for _, nm := range []bool{false, true} {
					for _, ni := range []bool{false, true} {
						tot += len(reachability.FindReachable(state, nm, ni, nil))
					}
				}
				res.Info = fmt.Sprintf("%d reachable (4 root selections)", tot)
			}
		case "defers":
			lg := config.NewLogGroup(config.NewDefault())
			n, unb := 0, 0
			var fns []*ssa.Function
			for f := range ssautil.AllFunctions(l.Prog) {
				fns = append(fns, f)
			}
			sort.Slice(fns, func(i, j int) bool { return fns[i].String() < fns[j].String() })
			for _, f := range fns {
				r := defers.AnalyzeFunction(f, lg)
				n++
				if !r.DeferStackBounded {
					unb++
				}
			}
			res.Info = fmt.Sprintf("%d functions, %d unbounded", n, unb)
		case "maypanic":
			maypanic.MayPanicAnalyzer(l.Prog, nil, true)
		}
		res.Done = true
		final()
	}
}

// c07Analyses lists (analysis, yaml options).
var c07Analyses = []struct{ Name, Extra string }{
	{"taint", ""},
	{"taint-od", "  summarize-on-demand: true\n"},
	{"taint-fs", "  field-sensitive: true\n"},
	{"taint-esc", "  use-escape-analysis: true\n"},
	{"backtrace", ""},
	{"backtrace-od", "  summarize-on-demand: true\n"},
	{"escape", ""},
	{"reachability", ""},
	{"defers", ""},
	{"maypanic", ""},
}

type stepTable map[string]map[string]int64 // program/analysis -> site -> steps on the pinned tree

func loadStepTable() stepTable {
	t := stepTable{}
	_ = core.ReadJSON(filepath.Join(core.VerifDir, "c07_steps.json"), &t)
	return t
}

// C07 — the analyses terminate without crashing on every well-typed program.
func C07(tier string) {
	run := core.NewRun("C07", tier)
	type prog struct {
		name  string
		files map[string]string
	}
	var progs []prog
	for _, h := range gen.HostilePrograms() {
		progs = append(progs, prog{"hostile-" + h.Name, h.Files})
	}
	// generated workloads of the other checks, as hostile inputs for all analyses
	{
		links := gen.AllLinks(nil, nil)
		var chains []gen.Chain
		for i, l := range links {
			chains = append(chains, gen.Chain{ID: i + 1, Links: []string{l}})
		}
		progs = append(progs, prog{"all-links", (&gen.Batch{Chains: chains}).Files()})
		var dc []gen.DispatchCase
		for i, f := range gen.AllForms("") {
			dc = append(dc, gen.DispatchCase{Idx: i + 1, Form: f})
		}
		progs = append(progs, prog{"all-dispatch-forms", gen.RenderDispatch(dc)})
		var rc []gen.RacyCase
		n := 1
		for s := range gen.Shares {
			rc = append(rc, gen.RacyCase{N: n, Share: s, GAcc: n % len(gen.Accesses), MAcc: (n + 1) % len(gen.Accesses)})
			n++
		}
		progs = append(progs, prog{"racy", gen.RenderRacyProgram(rc)})
		var bodies [][]gen.CNode
		for k := 1; k <= 3; k++ {
			bodies = append(bodies, gen.EnumBodies(k, cfgAllKinds)...)
		}
		if len(bodies) > 400 {
			bodies = bodies[:400]
		}
		progs = append(progs, prog{"cfg-bodies", gen.RenderCFGProgram(bodies, 12)})
		var pc []gen.PanicCase
		k := 1
		for g := range gen.GoForms {
			pc = append(pc, gen.PanicCase{N: k, Go: g, Rec: k % len(gen.RecForms)})
			k++
		}
		progs = append(progs, prog{"go-forms", gen.RenderPanicProgram(pc)})
		r := core.NewRNG(run.SeedV, "c07-"+tier)
		nRand := 2
		if tier == "thorough" {
			nRand = 12
		}
		for p := 0; p < nRand; p++ {
			var ch []gen.Chain
			for i := 0; i < 20; i++ {
				var l []string
				for j := 2 + r.Intn(5); j > 0; j-- {
					l = append(l, links[r.Intn(len(links))])
				}
				ch = append(ch, gen.Chain{ID: i + 1, Links: l})
			}
			progs = append(progs, prog{fmt.Sprintf("random-chains-%d", p), (&gen.Batch{Chains: ch}).Files()})
			hf, _ := gen.RenderHeapProgram(r, 6, 30)
			progs = append(progs, prog{fmt.Sprintf("random-heap-%d", p), hf})
		}
	}
	if tier == "smoke" {
		progs = progs[:3]
	}
	if tier == "quick" {
		// the fixed hostile corpus + three generated workloads; the rest is left to the thorough tier
		var sel []prog
		for _, p := range progs {
			if strings.HasPrefix(p.name, "hostile-") || p.name == "all-links" || p.name == "all-dispatch-forms" || p.name == "go-forms" {
				sel = append(sel, p)
			}
		}
		progs = sel
	}
	table := loadStepTable()
	record := os.Getenv("VERIF_C07_RECORD") != ""
	newTable := stepTable{}
	var mu sync.Mutex
	type job struct {
		p int
		a int
	}
	var jobs []job
	for pi := range progs {
		for ai := range c07Analyses {
			jobs = append(jobs, job{pi, ai})
		}
	}
	for pi, p := range progs {
		dir := filepath.Join(run.Scratch, p.name)
		if err := gen.WriteProgram(dir, p.files); err != nil {
			run.Inconclusive(err.Error())
		}
		if err := gen.VetStub(dir); err != nil {
			run.Inconclusive(fmt.Sprintf("generator bug: program %s is not well-typed: %s", p.name, tailStr(err.Error(), 500)))
			progs[pi].files = nil
		}
	}
	maxSteps := int64(0)
	// A program/analysis that has no entry in the committed table (a program added after the table was recorded) is
	// bounded by the largest count any committed program needed at each loop.
	siteMax := map[string]int64{}
	for _, m := range table {
		for site, n := range m {
			if n > siteMax[site] {
				siteMax[site] = n
			}
		}
	}
	// limitOf is the logical step bound of one loop for one run. Programs that do not depend on the seed are compared
	// with their own committed counts tightly (20x, at least +300); seed-dependent ones (random-*) and runs without a
	// committed entry loosely (200x, floor 50).
	limitOf := func(key string, b int64) int64 {
		_, has := table[key]
		if has && !strings.HasPrefix(key, "random-") {
			if 20*b > b+300 {
				return 20 * b
			}
			return b + 300
		}
		if b < 50 {
			b = 50
		}
		return 200 * b
	}
	baseFor := func(key string) map[string]int64 {
		if b, ok := table[key]; ok {
			return b
		}
		return siteMax
	}
	core.Parallel(len(jobs), 8, func(ji int) {
		j := jobs[ji]
		p, a := progs[j.p], c07Analyses[j.a]
		if p.files == nil {
			return
		}
		dir := filepath.Join(run.Scratch, p.name)
		c := ChainCfg{Name: a.Name, Rewrites: true, Extra: a.Extra}
		cp := filepath.Join(dir, "cfg-"+a.Name+".yaml")
		_ = os.WriteFile(cp, []byte(c.YAML()), 0o644)
		tj := &TermJob{Dir: dir, Analysis: a.Name, Config: cp, Out: filepath.Join(dir, "term-"+a.Name+".out.json")}
		if !record {
			tj.Limits = map[string]int64{}
			for site, b := range baseFor(p.name + "/" + a.Name) {
				tj.Limits[site] = limitOf(p.name+"/"+a.Name, b)
			}
			for site, b := range siteMax { // loops the committed run of this program never entered
				if _, ok := tj.Limits[site]; !ok {
					tj.Limits[site] = 200 * b
				}
			}
		}
		jf := filepath.Join(dir, "term-"+a.Name+".job.json")
		core.WriteJSON(jf, tj)
		cr := SpawnWorker("term", jf, 12*time.Minute)
		var res TermResult
		_ = core.ReadJSON(tj.Out, &res)
		key := p.name + "/" + a.Name
		run.Eval(1)
		var total int64
		for _, v := range res.Steps {
			total += v
		}
		mu.Lock()
		if cr.Status == "ok" && res.Done && res.Err == "" {
			newTable[key] = res.Steps // only complete runs go into a recorded table
		} else if record {
			fmt.Printf("RECORD: %s not recorded (status %s, done %v, err %q)\n", key, cr.Status, res.Done, tailStr(res.Err, 80))
		}
		if total > maxSteps {
			maxSteps = total
		}
		mu.Unlock()
		if total > 0 {
			run.Distinct(key)
		}
		data, _ := os.ReadFile(cr.LogFile)
		files := withRT(p.files)
		files["cfg.yaml"] = c.YAML()
		switch {
		case cr.Status == "ok" && strings.HasPrefix(res.Err, "step-bound:"):
			sig := "step-bound:" + key
			if !run.IsKnown(sig) {
				run.Violation(sig, fmt.Sprintf("%s: %s (bound derived from the committed counts of the pinned tree; the worker stopped itself): %v", key, res.Err, res.Steps), files)
			}
		case cr.Status == "ok" && res.Done:
			// bounded progress: logical steps against the committed table of the pinned tree
			if base := baseFor(key); !record {
				for site, n := range res.Steps {
					b, inBase := base[site]
					if !inBase {
						continue // a loop the committed run never entered is bounded by the worker-side limit only
					}
					if n > limitOf(key, b) {
						sig := "step-bound:" + key
						if !run.IsKnown(sig) {
							run.Violation(sig, fmt.Sprintf("%s: loop %s made %d steps; the pinned tree needs %d on the same program", key, site, n, base[site]), files)
						}
					}
				}
			}
		case cr.Status == "watchdog":
			exceeded := false
			{
				base := baseFor(key)
				for site, n := range res.Steps {
					if b, inBase := base[site]; inBase && n > limitOf(key, b) {
						exceeded = true
					}
				}
			}
			if exceeded {
				run.Violation("diverges:"+key, fmt.Sprintf("%s: wall-clock watchdog fired and the logical step bound is exceeded: %v\n%s", key, res.Steps, tailStr(string(data), 3000)), files)
			} else {
				run.Inconclusive(fmt.Sprintf("%s: wall-clock watchdog fired (steps so far %v): inconclusive", key, res.Steps))
			}
		default:
			sig := "crash:" + a.Name + ":" + p.name
			if run.IsKnown(sig) {
				return
			}
			run.Violation(sig, fmt.Sprintf("%s on program %s did not return: child status %s (exit %d)\n%s", a.Name, p.name, cr.Status, cr.ExitCode, tailStr(string(data), 4000)), files)
		}
	})
	if record {
		{
			// keep the committed entries of the runs this tier does not include or that did not complete
			for k, v := range table {
				if _, ok := newTable[k]; !ok {
					newTable[k] = v
				}
			}
		}
		core.WriteJSON(filepath.Join(core.VerifDir, "c07_steps.json"), newTable)
		fmt.Println("recorded step table for", len(newTable), "runs")
	}
	run.Cov["programs"] = len(progs)
	run.Cov["analyses"] = len(c07Analyses)
	run.Cov["max_logical_steps_in_one_run"] = maxSteps
	run.Cov["step_table_entries"] = len(table)
	run.Sample(map[string]any{"program": progs[0].name, "analyses": c07Analyses})
	run.Assumptions = append(run.Assumptions, "termination is restated as bounded progress: the loop-head hook counters of every fixpoint/traversal loop stay below a multiple of the count the pinned tree needs on the same program (committed table c07_steps.json: 20x and at least +300 for the seed-independent programs, 200x with a floor of 50 for the seed-dependent ones); the worker stops itself when a bound is exceeded",
		"a wall-clock watchdog alone is inconclusive; a crash (panic, fatal error, non-zero exit of the child) is a violation")
	run.Finish("exploration", "a fixed hostile corpus (all recursion flavours, recursive data types, defers in loops/branches/goto, generics, bodyless functions with an assembly stub, goto spaghetti, 300-case switch, 200-deep call chain, 1800-instruction function, language odds and ends, goroutine pipelines) plus the generated workloads of the other checks and seeded random programs, each under 10 analysis variants (taint x4, backtrace x2, escape, reachability, defers over all functions, may-panic) in supervised children; "+
		"distinct non-trivial = (program, analysis) runs whose loop-head hooks fired")
}
