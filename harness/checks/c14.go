package checks

import (
	"fmt"
	"os"
	"path/filepath"
	"regexp"
	"sort"
	"strconv"
	"strings"
	"sync"
	"time"

	"github.com/awslabs/ar-go-tools/analysis/config"
	"github.com/awslabs/ar-go-tools/analysis/dataflow"
	"github.com/awslabs/ar-go-tools/analysis/escape"
	"go/token"
	"golang.org/x/tools/go/ssa"

	"verif/harness/ana"
	"verif/harness/core"
	"verif/harness/gen"
)

// LocalityJob asks the worker for the locality of the memory-accessing instructions of package main.
type LocalityJob struct {
	Dir string `json:"dir"`
	Out string `json:"out"`
}

// LineAccess is one memory-accessing instruction on a source line.
type LineAccess struct {
	Line   int    `json:"line"`
	Func   string `json:"func"`
	Kind   string `json:"kind"`
	Local  bool   `json:"local"` // classified local in the merged derived context of its function
	HasCtx bool   `json:"has_ctx"`
	Why    string `json:"why,omitempty"`
}

// LocalityResult is the worker's answer.
type LocalityResult struct {
	Accesses []LineAccess `json:"accesses"`
	Contexts int          `json:"contexts"`
	Err      string       `json:"err,omitempty"`
}

// memAccessKind classifies SSA instructions that access memory (loads, stores, map/channel operations, builtins
// that read or write their operands' memory).
func memAccessKind(ins ssa.Instruction) string {
	switch x := ins.(type) {
	case *ssa.Store:
		return "store"
	case *ssa.UnOp:
		if x.Op == token.MUL {
			return "load"
		}
		if x.Op == token.ARROW {
			return "recv"
		}
	case *ssa.MapUpdate:
		return "mapupdate"
	case *ssa.Lookup:
		if _, isMap := x.X.Type().Underlying().(interface{ Key() any }); isMap {
			return "lookup"
		}
		return "lookup"
	case *ssa.Send:
		return "send"
	case *ssa.Range:
		return "range"
	case *ssa.Next:
		if !x.IsString {
			return "next"
		}
	case *ssa.Call:
		if b, ok := x.Call.Value.(*ssa.Builtin); ok {
			switch b.Name() {
			case "copy", "append", "delete", "clear":
				return "builtin-" + b.Name()
			}
		}
	}
	return ""
}

func init() {
	extraWorkers["locality"] = func(jobFile string) {
		var job LocalityJob
		if err := core.ReadJSON(jobFile, &job); err != nil {
			fmt.Fprintln(os.Stderr, err)
			os.Exit(2)
		}
		res := &LocalityResult{}
		l, err := ana.Load(job.Dir, true)
		if err != nil {
			res.Err = "load: " + err.Error()
			core.WriteJSON(job.Out, res)
			return
		}
		cfg := config.NewDefault()
		cfg.LogLevel = int(config.ErrLevel)
		cfg.UseEscapeAnalysis = true
		state, err := dataflow.NewInitializedAnalyzerState(l.Prog, l.Pkgs, config.NewLogGroup(cfg), cfg)
		if err != nil {
			res.Err = "state: " + err.Error()
			core.WriteJSON(job.Out, res)
			return
		}
		if err := escape.InitializeEscapeAnalysisState(state); err != nil {
			res.Err = "escape: " + err.Error()
			core.WriteJSON(job.Out, res)
			return
		}
		ea := state.EscapeAnalysisState
		ctx := map[*ssa.Function]dataflow.EscapeCallContext{}
		var work []*ssa.Function
		addArbitrary := func(f *ssa.Function) {
			if f == nil || len(f.Blocks) == 0 || !ea.IsSummarized(f) {
				return
			}
			c := ea.ComputeArbitraryContext(f)
			if old, ok := ctx[f]; ok {
				changed, merged := old.Merge(c)
				if !changed {
					return
				}
				ctx[f] = merged
			} else {
				ctx[f] = c
			}
			work = append(work, f)
		}
		// roots: main and every function a go statement can launch (statically or through the call graph)
		cg := state.PointerAnalysis.CallGraph
		for f, node := range cg.Nodes {
			if f == nil {
				continue
			}
			if f.Name() == "main" && f.Pkg != nil && f.Pkg.Pkg.Name() == "main" {
				addArbitrary(f)
			}
			for _, e := range node.Out {
				if _, isGo := e.Site.(*ssa.Go); isGo && e.Callee != nil {
					addArbitrary(e.Callee.Func)
				}
			}
		}
		locality := map[*ssa.Function]map[ssa.Instruction]*dataflow.EscapeRationale{}
		steps := 0
		for len(work) > 0 && steps < 20000 {
			steps++
			f := work[len(work)-1]
			work = work[:len(work)-1]
			if f.Pkg == nil || !strings.HasPrefix(f.Pkg.Pkg.Path(), "vprog") {
				continue // contexts are derived for the program's own functions only
			}
			loc, callsites := ea.ComputeInstructionLocalityAndCallsites(f, ctx[f])
			locality[f] = loc
			for call, info := range callsites {
				callees, _ := state.ResolveCallee(call, false)
				for callee := range callees {
					if callee == nil || len(callee.Blocks) == 0 || !ea.IsSummarized(callee) {
						continue
					}
					if callee.Pkg == nil || !strings.HasPrefix(callee.Pkg.Pkg.Path(), "vprog") {
						continue
					}
					var nc dataflow.EscapeCallContext
					func() {
						defer func() {
							if r := recover(); r != nil {
								nc = nil
							}
						}()
						nc = info.Resolve(callee)
					}()
					if nc == nil {
						continue
					}
					if old, ok := ctx[callee]; ok {
						changed, merged := old.Merge(nc)
						if !changed {
							continue
						}
						ctx[callee] = merged
					} else {
						ctx[callee] = nc
					}
					work = append(work, callee)
				}
			}
		}
		res.Contexts = len(ctx)
		for f := range cg.Nodes {
			if f == nil || f.Pkg == nil || f.Pkg.Pkg.Name() != "main" {
				continue
			}
			loc, has := locality[f]
			for _, b := range f.Blocks {
				for _, ins := range b.Instrs {
					k := memAccessKind(ins)
					if k == "" {
						continue
					}
					pos := l.Prog.Fset.Position(ins.Pos())
					if !pos.IsValid() {
						// loads of captured variables etc. carry no position of their own: use the position of the value
						if v, ok := ins.(ssa.Value); ok {
							for _, r := range *v.Referrers() {
								if p := l.Prog.Fset.Position(r.Pos()); p.IsValid() {
									pos = p
									break
								}
							}
						}
					}
					la := LineAccess{Line: pos.Line, Func: f.Name(), Kind: k, HasCtx: has}
					if has {
						r, present := loc[ins]
						la.Local = !present || r == nil
						if r != nil {
							la.Why = r.String()
						}
					}
					res.Accesses = append(res.Accesses, la)
				}
			}
		}
		sort.Slice(res.Accesses, func(i, j int) bool { return res.Accesses[i].Line < res.Accesses[j].Line })
		core.WriteJSON(job.Out, res)
	}
}

var reRaceStack = regexp.MustCompile(`(?m)^\s+(\S+main\.go):(\d+)`)

// raceLines extracts, per race report, the main.go line of the top user frame of the two accesses.
func raceLines(glob string) ([][2]int, int) {
	files, _ := filepath.Glob(glob)
	var out [][2]int
	total := 0
	for _, f := range files {
		data, _ := os.ReadFile(f)
		for _, blk := range reRaceBlock.FindAllString(string(data), -1) {
			total++
			parts := strings.Split(blk, "\n\n")
			if len(parts) < 2 {
				continue
			}
			var ls [2]int
			for i := 0; i < 2; i++ {
				if m := reRaceStack.FindStringSubmatch(parts[i]); m != nil {
					ls[i], _ = strconv.Atoi(m[2])
				}
			}
			if ls[0] > 0 && ls[1] > 0 {
				out = append(out, ls)
			}
		}
	}
	return out, total
}

// C14 — an instruction classified as thread-local never touches shared memory (sanitizer: Go race detector).
func C14(tier string) {
	run := core.NewRun("C14", tier)
	var all []gen.RacyCase
	n := 1
	for s := range gen.Shares {
		for g := range gen.Accesses {
			for m := range gen.Accesses {
				// same object part on both sides, or a write on one side of the same field family
				if g/2 == m/2 || (g == 0 && m <= 1) {
					all = append(all, gen.RacyCase{N: n, Share: s, GAcc: g, MAcc: m})
					n++
				}
			}
		}
	}
	if only := os.Getenv("VERIF_C14_SHARE"); only != "" { // development aid
		var sel []gen.RacyCase
		for _, c := range all {
			if gen.Shares[c.Share].Name == only {
				sel = append(sel, c)
			}
		}
		all = sel
	}
	per := 40
	nProgs := (len(all) + per - 1) / per
	if tier != "thorough" {
		// quick: a fixed third of the scenarios (every sharing mechanism is kept), rotated by the seed
		var sel []gen.RacyCase
		for i, c := range all {
			if (i+int(run.SeedV))%3 == 0 {
				sel = append(sel, c)
			}
		}
		all = sel
		nProgs = (len(all) + per - 1) / per
	}
	if tier == "smoke" {
		all = all[:per]
		nProgs = 1
	}
	reps := 3
	if tier == "thorough" {
		reps = 8
	}
	var mu sync.Mutex
	reports, linesChecked, ambiguous, noctx := 0, 0, 0, 0
	core.Parallel(nProgs, 4, func(pi int) {
		lo, hi := pi*per, (pi+1)*per
		if hi > len(all) {
			hi = len(all)
		}
		cs := all[lo:hi]
		dir := filepath.Join(run.Scratch, fmt.Sprintf("racy%02d", pi))
		files := gen.RenderRacyProgram(cs)
		if err := gen.WriteProgram(dir, files); err != nil {
			run.Inconclusive(err.Error())
			return
		}
		bin, err := gen.BuildNative(dir, "-race")
		if err != nil {
			run.Inconclusive("generator produced a program that does not build: " + tailStr(err.Error(), 800))
			return
		}
		logp := filepath.Join(dir, "race")
		for r := 0; r < reps; r++ {
			_, err := gen.RunNative(bin, "", "", filepath.Join(dir, "events.log"), "GORACE=halt_on_error=0 exitcode=0 log_path="+logp, fmt.Sprintf("GOMAXPROCS=%d", []int{4, 1, 16}[r%3]))
			if err != nil {
				run.Inconclusive("native racy run failed: " + tailStr(err.Error(), 300))
				return
			}
		}
		_ = os.Remove(bin)
		pairs, total := raceLines(logp + ".*")
		job := &LocalityJob{Dir: dir, Out: filepath.Join(dir, "loc.out.json")}
		jf := filepath.Join(dir, "loc.job.json")
		core.WriteJSON(jf, job)
		cr := SpawnWorker("locality", jf, 20*time.Minute)
		var res LocalityResult
		if cr.Status != "ok" || core.ReadJSON(job.Out, &res) != nil || res.Err != "" {
			data, _ := os.ReadFile(cr.LogFile)
			if cr.Status == "panic" {
				run.Violation("analyzer-panic", "escape analysis crashed: "+tailStr(string(data), 3000), withRT(files))
			} else {
				run.Inconclusive("locality worker " + cr.Status + " " + res.Err)
			}
			return
		}
		byLine := map[int][]LineAccess{}
		for _, a := range res.Accesses {
			byLine[a.Line] = append(byLine[a.Line], a)
		}
		srcLines := strings.Split(files["main.go"], "\n")
		caseOf := func(line int) (gen.RacyCase, string, bool) {
			if line-1 < 0 || line-1 >= len(srcLines) {
				return gen.RacyCase{}, "", false
			}
			s := srcLines[line-1]
			k := strings.Index(s, "// access:")
			if k < 0 {
				return gen.RacyCase{}, "", false
			}
			var side string
			var id int
			parts := strings.Split(s[k+len("// access:"):], ":")
			if len(parts) < 2 {
				return gen.RacyCase{}, "", false
			}
			side = parts[0]
			id, _ = strconv.Atoi(strings.TrimSpace(parts[1]))
			for _, c := range cs {
				if c.N == id {
					return c, side, true
				}
			}
			return gen.RacyCase{}, "", false
		}
		seenLine := map[int]bool{}
		mu.Lock()
		reports += total
		mu.Unlock()
		for _, pr := range pairs {
			for _, line := range pr {
				if seenLine[line] {
					continue
				}
				seenLine[line] = true
				c, side, ok := caseOf(line)
				if !ok {
					continue // a race on a line that is not a designated access (e.g. the sharing statement itself)
				}
				accs := byLine[line]
				run.Eval(1)
				mu.Lock()
				linesChecked++
				mu.Unlock()
				if len(accs) == 0 {
					run.Inconclusive(fmt.Sprintf("race on line %d but no memory-accessing SSA instruction was mapped to it", line))
					continue
				}
				hasCtx := true
				allLocal := true
				for _, a := range accs {
					if !a.HasCtx {
						hasCtx = false
					}
					if !a.Local {
						allLocal = false
					}
				}
				if !hasCtx {
					mu.Lock()
					noctx++
					mu.Unlock()
					continue
				}
				if len(accs) > 1 {
					mu.Lock()
					ambiguous++
					mu.Unlock()
				}
				acc := gen.Accesses[c.MAcc].Name
				if side == "g" {
					acc = gen.Accesses[c.GAcc].Name
				}
				run.Distinct(fmt.Sprintf("%s/%s/%s", gen.Shares[c.Share].Name, side, acc))
				if !allLocal {
					continue
				}
				sig := fmt.Sprintf("local-but-racy:%s:%s", gen.Shares[c.Share].Name, map[string]string{"g": "goroutine-side", "m": "creator-side"}[side])
				if run.IsKnown(sig) {
					continue
				}
				single := gen.RenderRacyProgram([]gen.RacyCase{c})
				var kinds []string
				for _, a := range accs {
					kinds = append(kinds, a.Kind)
				}
				run.Violation(sig, fmt.Sprintf("scenario share=%s, %s-side access %q (main.go:%d, instructions %v in %s): the Go race detector reported a data race on this line (lines %d and %d), yet every memory-accessing instruction on it is classified local in the context derived for its function",
					gen.Shares[c.Share].Name, map[string]string{"g": "goroutine", "m": "main"}[side], acc, line, kinds, accs[0].Func, pr[0], pr[1]), withRT(single))
			}
		}
		if pi == 0 {
			run.Sample(map[string]any{"race_reports": total, "report_line_pairs": firstPairs(pairs, 4), "contexts_derived": res.Contexts})
		}
	})
	run.Cov["scenarios"] = len(all)
	run.Cov["race_detector_reports"] = reports
	run.Cov["racy_access_lines_checked"] = linesChecked
	run.Cov["lines_with_several_memory_instructions"] = ambiguous
	run.Cov["lines_in_functions_without_derived_context"] = noctx
	run.Cov["native_repetitions"] = reps
	run.Assumptions = append(run.Assumptions, "a race-detector report is sound evidence that the instruction on that line accessed memory reachable from another goroutine",
		"contexts are derived as the statement says (arbitrary context for main and go-callees, call-site contexts for their callees, merged per function); an instruction counts as local if its rationale is nil in the merged context",
		"when a line holds several memory-accessing instructions only 'not all of them are local' is required")
	run.Finish("exploration", "deliberately racy programs: an object is shared through each of 18 mechanisms and accessed from a goroutine and (after a sleep, without synchronisation) from its creator, one designated access per line; built with -race and run repeatedly; "+
		"distinct non-trivial = (sharing mechanism, side, access kind) for which the race detector produced a report; oracle: a reported line must contain an instruction that the escape analysis classifies non-local")
}

func firstPairs(p [][2]int, n int) [][2]int {
	if len(p) > n {
		return p[:n]
	}
	return p
}
