package checks

import (
	"fmt"
	"os"
	"path/filepath"
	"strings"

	"verif/harness/core"
	"verif/harness/gen"
)

// WriteCorpus renders the witness programs of the known findings under /verif/corpus (development command).
func WriteCorpus() {
	root := filepath.Join(core.VerifDir, "corpus")
	write := func(dir string, files map[string]string, readme string) {
		d := filepath.Join(root, dir)
		for n, c := range withRT(files) {
			p := filepath.Join(d, strings.TrimPrefix(n, "prog/"))
			_ = os.MkdirAll(filepath.Dir(p), 0o755)
			_ = os.WriteFile(p, []byte(c), 0o644)
		}
		_ = os.WriteFile(filepath.Join(d, "README.txt"), []byte(readme+"\n"), 0o644)
		_ = os.WriteFile(filepath.Join(d, "config.yaml"), []byte(ChainCfg{Name: "base", Rewrites: true}.YAML()), 0o644)
	}
	chain := func(dir string, links ...string) {
		b := &gen.Batch{Chains: []gen.Chain{{ID: 1, Links: links}}}
		write(dir, b.Files(), fmt.Sprintf("chain %v: `go run -tags vnative .` prints the marker arriving at the sink (K 1 raw=1); `argot taint -config config.yaml .` does not report the flow", links))
	}
	for _, l := range []string{"builder", "bufiowriter", "globalstructx", "globalarrayx", "globalmapx", "globalptrx", "globalptrstrx", "globalsliceelemx", "globalchanx"} {
		chain("C01/"+l, l)
	}
	chain("C01/closure-pairs", "methodvalue", "methodvalueptr")
	chain("C01/field-sensitive-pairs", "sprintf", "sprint")
	chain("C02/valerrfall", "valerrfall")
	chain("C03/stringsmap", "stringsmap")
	chain("C03/readall", "readall")
	chain("C03/syncmap", "syncmap")
	chain("C03/urlescape", "urlescape")
	write("C03/crash-base64rt-jsonroundtrip", (&gen.Batch{Chains: []gen.Chain{{ID: 1, Links: []string{"base64rt"}}, {ID: 2, Links: []string{"jsonroundtrip"}}}}).Files(),
		"backtrace with summarize-on-demand: true and the sinks as backtrace points crashes on this program")
	for _, f := range []string{"iface2ifacenarrow", "iocopywriterto"} {
		write("C18/"+f, gen.RenderDispatch([]gen.DispatchCase{{Idx: 1, Form: f}}), "dispatch form "+f+": the function announcing Enter id 21 executes but is not in `argot reachability`")
	}
	for gi, g := range gen.GoForms {
		switch g.Name {
		case "funcreturned", "funcparam", "funcfield", "funcmap", "funcglobal", "invoke", "invokeptr":
			write("C19/"+g.Name, gen.RenderPanicProgram([]gen.PanicCase{{N: 1, Go: gi, Rec: 0}}), "go form "+g.Name+": VERIF_CASE=1 makes the goroutine panic and kill the process; `argot maypanic -json .` does not list its entry function")
		}
	}
	for si, s := range gen.Shares {
		if s.Name == "deferpublish" || s.Name == "iface" {
			write("C14/"+s.Name, gen.RenderRacyProgram([]gen.RacyCase{{N: 1, Share: si, GAcc: 0, MAcc: 0}}), "sharing mechanism "+s.Name+": `go run -race -tags vnative .` reports a race on the access lines; the escape analysis classifies the instruction local")
		}
	}
	write("C04", renderC04(c04Candidates()), "candidate functions x call forms; see known_findings.json for the 13 (role, form, pattern class) combinations that deviate from the regexp reference")
	fmt.Println("corpus written to", root)
}
