package checks

import (
	"fmt"
	"os"
	"path/filepath"
	"sort"
	"strconv"
	"strings"
	"time"

	"github.com/awslabs/ar-go-tools/analysis/config"
	"github.com/awslabs/ar-go-tools/analysis/defers"
	"golang.org/x/tools/go/ssa"

	"verif/harness/ana"
	"verif/harness/core"
	"verif/harness/gen"
)

// DefersJob asks the worker to run the defer analysis on functions f0..f(N-1) of a program.
type DefersJob struct {
	Dir string `json:"dir"`
	N   int    `json:"n"`
	Out string `json:"out"`
}

// DefersFn is the analysis answer for one function.
type DefersFn struct {
	Bounded bool                `json:"bounded"`
	Exits   map[string][]string `json:"exits"` // exit id -> sorted stacks ("1,2")
	Bad     []string            `json:"bad"`
	// SSAExits lists the exits that have a RunDefers instruction in the function's SSA form (independent of
	// the analysis result): only at those points do deferred calls run.
	SSAExits []string `json:"ssa_exits"`
}

func init() {
	extraWorkers["defers"] = func(jobFile string) {
		var job DefersJob
		if err := core.ReadJSON(jobFile, &job); err != nil {
			fmt.Fprintln(os.Stderr, err)
			os.Exit(2)
		}
		l, err := ana.Load(job.Dir, false)
		if err != nil {
			fmt.Fprintln(os.Stderr, "load:", err)
			os.Exit(2)
		}
		lg := config.NewLogGroup(config.NewDefault())
		var mainPkg *ssa.Package
		for _, p := range l.Prog.AllPackages() {
			if p.Pkg.Name() == "main" {
				mainPkg = p
			}
		}
		res := map[int]*DefersFn{}
		for i := 0; i < job.N; i++ {
			fn := mainPkg.Func(fmt.Sprintf("f%d", i))
			if fn == nil {
				continue
			}
			r := defers.AnalyzeFunction(fn, lg)
			df := &DefersFn{Bounded: r.DeferStackBounded, Exits: map[string][]string{}}
			for _, b := range fn.Blocks {
				for _, ins := range b.Instrs {
					if rd, ok := ins.(*ssa.RunDefers); ok {
						df.SSAExits = append(df.SSAExits, exitOf(rd))
					}
				}
			}
			for rd, set := range r.RunDeferSets {
				exit := exitOf(rd)
				var stacks []string
				for _, st := range set {
					var ids []string
					for _, ii := range st {
						id := -1
						if ii.Block >= 0 && ii.Block < len(fn.Blocks) && ii.Ins >= 0 && ii.Ins < len(fn.Blocks[ii.Block].Instrs) {
							if d, ok := fn.Blocks[ii.Block].Instrs[ii.Ins].(*ssa.Defer); ok {
								id = deferID(d)
							}
						}
						if id < 0 {
							df.Bad = append(df.Bad, fmt.Sprintf("stack entry (%d,%d) is not a defer statement", ii.Block, ii.Ins))
						}
						ids = append(ids, strconv.Itoa(id))
					}
					stacks = append(stacks, "["+strings.Join(ids, ",")+"]")
				}
				sort.Strings(stacks)
				// duplicates inside one set are a well-formedness defect of the sorted-set representation
				for k := 1; k < len(stacks); k++ {
					if stacks[k] == stacks[k-1] {
						df.Bad = append(df.Bad, "duplicate stack "+stacks[k]+" in the set of exit "+exit)
					}
				}
				if prev, dup := df.Exits[exit]; dup {
					stacks = append(prev, stacks...)
					sort.Strings(stacks)
				}
				df.Exits[exit] = stacks
			}
			res[i] = df
		}
		core.WriteJSON(job.Out, res)
	}
}

func constArg(c *ssa.CallCommon) int {
	if len(c.Args) == 0 {
		return -1
	}
	if k, ok := c.Args[0].(*ssa.Const); ok {
		return int(k.Int64())
	}
	return -1
}

func exitOf(rd *ssa.RunDefers) string {
	b := rd.Block()
	id := -2
	for _, ins := range b.Instrs {
		if ins == ssa.Instruction(rd) {
			break
		}
		if c, ok := ins.(*ssa.Call); ok {
			if f := c.Call.StaticCallee(); f != nil && f.Name() == "Exit" {
				id = constArg(&c.Call)
			}
		}
	}
	return strconv.Itoa(id)
}

func deferID(d *ssa.Defer) int {
	if len(d.Call.Args) == 0 {
		return -1
	}
	if c, ok := d.Call.Args[0].(*ssa.Call); ok {
		if f := c.Call.StaticCallee(); f != nil && f.Name() == "DPush" {
			return constArg(&c.Call)
		}
	}
	return -1
}

type cfgObserved struct {
	runs, panics, lifobad int
	twice                 bool
	exits                 map[string]map[string]bool
}

func parseCFGEvents(data string) map[int]*cfgObserved {
	res := map[int]*cfgObserved{}
	for _, line := range strings.Split(data, "\n") {
		f := strings.Fields(line)
		if len(f) < 2 {
			continue
		}
		idx, _ := strconv.Atoi(f[1])
		o := res[idx]
		if o == nil {
			o = &cfgObserved{exits: map[string]map[string]bool{}}
			res[idx] = o
		}
		switch f[0] {
		case "F":
			for _, kv := range f[2:] {
				p := strings.SplitN(kv, "=", 2)
				switch p[0] {
				case "runs":
					o.runs, _ = strconv.Atoi(p[1])
				case "panics":
					o.panics, _ = strconv.Atoi(p[1])
				case "lifobad":
					o.lifobad, _ = strconv.Atoi(p[1])
				case "twice":
					o.twice = p[1] == "true"
				}
			}
		case "S":
			if len(f) >= 4 {
				if o.exits[f[2]] == nil {
					o.exits[f[2]] = map[string]bool{}
				}
				o.exits[f[2]][f[3]] = true
			}
		}
	}
	return res
}

var cfgCoreKinds = []string{"defer", "ret", "panic", "if", "for", "break", "continue"}
var cfgAllKinds = []string{"defer", "ret", "panic", "if", "for", "break", "continue", "switch", "dowhile", "fwd"}

func randomBody(r *core.RNG, size int, inLoop bool, depth int) []gen.CNode {
	var b []gen.CNode
	for size > 0 {
		var kinds []string
		kinds = append(kinds, "defer", "defer", "defer")
		if size >= 2 && depth < 4 {
			kinds = append(kinds, "if", "if", "for", "dowhile", "fwd")
		}
		if size >= 3 && depth < 4 {
			kinds = append(kinds, "switch")
		}
		if size == 1 || r.Intn(4) == 0 {
			kinds = append(kinds, "ret", "panic")
			if inLoop {
				kinds = append(kinds, "break", "continue")
			}
		}
		k := kinds[r.Intn(len(kinds))]
		switch k {
		case "defer":
			b = append(b, gen.CNode{Kind: k})
			size--
		case "ret", "panic", "break", "continue":
			b = append(b, gen.CNode{Kind: k})
			return b
		case "if":
			inner := 1 + r.Intn(size-1)
			a := 1 + r.Intn(inner)
			b = append(b, gen.CNode{Kind: k, Kids: [][]gen.CNode{randomBody(r, a, inLoop, depth+1), randomBody(r, inner-a, inLoop, depth+1)}})
			size -= 1 + inner
		case "for":
			inner := 1 + r.Intn(size-1)
			b = append(b, gen.CNode{Kind: k, Kids: [][]gen.CNode{randomBody(r, inner, true, depth+1)}})
			size -= 1 + inner
		case "dowhile", "fwd":
			inner := 1 + r.Intn(size-1)
			b = append(b, gen.CNode{Kind: k, Kids: [][]gen.CNode{randomBody(r, inner, false, depth+1)}})
			size -= 1 + inner
		case "switch":
			inner := 2 + r.Intn(size-2)
			a := 1 + r.Intn(inner-1)
			b = append(b, gen.CNode{Kind: k, Kids: [][]gen.CNode{randomBody(r, a, inLoop, depth+1), randomBody(r, inner-a, inLoop, depth+1)}})
			size -= 1 + inner
		}
	}
	return b
}

// C16 — the defer analysis computes exactly the defer stacks that executions produce.
func C16(tier string) {
	run := core.NewRun("C16", tier)
	maxN, nRandom, maxRand := 4, 300, 12
	if tier == "thorough" {
		maxN, nRandom, maxRand = 5, 3000, 16
	}
	var bodies [][]gen.CNode
	exhaustive := 0
	for n := 1; n <= maxN; n++ {
		for _, b := range gen.EnumBodies(n, cfgCoreKinds) {
			d := gen.CountDefers(b)
			if d == 0 || d > 3 {
				continue
			}
			bodies = append(bodies, b)
			exhaustive++
		}
	}
	// the extended grammar (switch, goto loops, forward gotos) exhaustively one size lower
	for n := 2; n <= maxN-1; n++ {
		for _, b := range gen.EnumBodies(n, cfgAllKinds) {
			d := gen.CountDefers(b)
			s := gen.Shape(b)
			if d == 0 || d > 3 || !(strings.Contains(s, "switch") || strings.Contains(s, "dowhile") || strings.Contains(s, "fwd")) {
				continue
			}
			bodies = append(bodies, b)
			exhaustive++
		}
	}
	r := core.NewRNG(run.SeedV, "c16-"+tier)
	for i := 0; i < nRandom; i++ {
		b := randomBody(r, 5+r.Intn(maxRand-4), false, 0)
		if gen.CountDefers(b) == 0 {
			i--
			continue
		}
		bodies = append(bodies, b)
	}
	per := 400
	type prog struct{ lo, hi int }
	var progs []prog
	for i := 0; i < len(bodies); i += per {
		j := i + per
		if j > len(bodies) {
			j = len(bodies)
		}
		progs = append(progs, prog{i, j})
	}
	totalRuns, unboundedSeen, boundedSeen, multiStack := 0, 0, 0, 0
	var muRuns = make(chan func(), 1)
	muRuns <- func() {}
	lock := func(f func()) { g := <-muRuns; f(); muRuns <- g }
	core.Parallel(len(progs), 8, func(pi int) {
		p := progs[pi]
		dir := filepath.Join(run.Scratch, fmt.Sprintf("p%03d", pi))
		bs := bodies[p.lo:p.hi]
		files := gen.RenderCFGProgram(bs, 12)
		if err := gen.WriteProgram(dir, files); err != nil {
			run.Inconclusive(err.Error())
			return
		}
		bin, err := gen.BuildNative(dir)
		if err != nil {
			run.Inconclusive("native build: " + err.Error())
			return
		}
		observe := func(tapeLen int) (map[int]*cfgObserved, error) {
			evf := filepath.Join(dir, fmt.Sprintf("events-%d.log", tapeLen))
			_, err := gen.RunNative(bin, "", "", evf, fmt.Sprintf("VERIF_TAPELEN=%d", tapeLen))
			if err != nil {
				return nil, err
			}
			data, _ := os.ReadFile(evf)
			return parseCFGEvents(string(data)), nil
		}
		obs, err := observe(12)
		if err != nil {
			run.Inconclusive("native run: " + err.Error())
			return
		}
		job := &DefersJob{Dir: dir, N: len(bs), Out: filepath.Join(dir, "defers.out.json")}
		jf := filepath.Join(dir, "defers.job.json")
		core.WriteJSON(jf, job)
		cr := SpawnWorker("defers", jf, 10*time.Minute)
		if cr.Status != "ok" {
			data, _ := os.ReadFile(cr.LogFile)
			if cr.Status == "watchdog" {
				run.Inconclusive("defer analysis watchdog on program " + dir)
			} else {
				run.Violation("defers-crash", "defer analysis crashed or failed: "+tailStr(string(data), 3000), withRT(files))
			}
			return
		}
		var res map[int]*DefersFn
		if err := core.ReadJSON(job.Out, &res); err != nil {
			run.Inconclusive(err.Error())
			return
		}
		var deep map[int]*cfgObserved
		for i, b := range bs {
			shape := gen.Shape(b)
			o, a := obs[i], res[i]
			run.Eval(1)
			if o == nil || a == nil {
				run.Inconclusive(fmt.Sprintf("function %s: no observation or no analysis result", shape))
				continue
			}
			lock(func() {
				totalRuns += o.runs
				if o.twice {
					unboundedSeen++
				} else {
					boundedSeen++
				}
			})
			fail := func(kind, what string) {
				single := gen.RenderCFGProgram([][]gen.CNode{b}, 12)
				fl := withRT(single)
				rj := fmt.Sprintf("{\"check\":\"C16\",\"kind\":\"cfg\",\"shape\":%q}\n", shape)
				fl["replay.json"] = rj
				run.Violation("cfg:"+shape+":"+kind, fmt.Sprintf("function with body shape %q: %s", shape, what), fl)
			}
			for _, bad := range a.Bad {
				fail("malformed", bad)
			}
			if o.lifobad > 0 {
				run.Inconclusive("native LIFO self-check failed for " + shape)
			}
			if o.twice && a.Bounded {
				fail("bounded-but-repeats", fmt.Sprintf("an execution ran a defer statement twice in one invocation (defer on a cycle) but the analysis reports DeferStackBounded=true; observed exits=%v", keysOf(o.exits)))
				continue
			}
			if !o.twice && !a.Bounded {
				if deep == nil {
					deep, _ = observe(18)
				}
				if d := deep[i]; d != nil && !d.twice {
					fail("unbounded-but-never-repeats", "analysis reports unbounded defers but no execution over all decision tapes of length 18 executes a defer statement twice")
				}
				continue
			}
			if !a.Bounded {
				continue
			}
			// bounded: per-exit set equality
			distinctStacks := 0
			exits := map[string]bool{}
			for _, e := range a.SSAExits {
				exits[e] = true
			}
			for e := range a.Exits {
				exits[e] = true
			}
			for e := range exits {
				rep := map[string]bool{}
				for _, s := range a.Exits[e] {
					rep[s] = true
				}
				for s := range o.exits[e] {
					distinctStacks++
					if !rep[s] {
						fail("missing-stack", fmt.Sprintf("exit %s: stack %s was produced by an execution but is not in the reported set %v", e, s, a.Exits[e]))
					}
				}
				for s := range rep {
					if !o.exits[e][s] {
						if deep == nil {
							deep, _ = observe(18)
						}
						if d := deep[i]; d == nil || !d.exits[e][s] {
							fail("spurious-stack", fmt.Sprintf("exit %s: reported stack %s is produced by no execution (all decision tapes up to length 18); observed %v", e, s, keysOf2(o.exits[e])))
						}
					}
				}
			}
			if distinctStacks >= 2 {
				run.Distinct(shape)
				lock(func() { multiStack++ })
			}
			if i%97 == 0 {
				run.Sample(map[string]any{"shape": shape, "native_runs": o.runs, "observed": flat(o.exits), "reported": a.Exits, "bounded": a.Bounded})
			}
		}
		_ = os.Remove(bin)
	})
	run.Cov["functions"] = len(bodies)
	run.Cov["exhaustive_functions"] = exhaustive
	run.Cov["exhaustive"] = true
	run.Cov["exhaustive_scope"] = fmt.Sprintf("all bodies with <= %d statement nodes and 1..3 defers over {defer,return,panic,if/else,for,break,continue}; plus all bodies with <= %d nodes using switch/goto-loop/forward-goto; plus %d seed-dependent random bodies", maxN, maxN-1, nRandom)
	run.Cov["native_invocations"] = totalRuns
	run.Cov["functions_with_repeating_defer_observed"] = unboundedSeen
	run.Cov["functions_without_repeating_defer"] = boundedSeen
	run.Cov["functions_with_2plus_distinct_stacks"] = multiStack
	run.Assumptions = append(run.Assumptions, "every branch condition is an opaque decision consumed from a tape, so every CFG path of bounded length is executed",
		"exits are identified by a marker call in the same basic block as the return; defer statements by a constant argument")
	run.Finish("exploration", "every function body of the enumerated grammar is executed natively under every decision tape of length <= 12 (lazy enumeration; 18 before calling a reported stack spurious); "+
		"non-trivial = bounded function for which >= 2 distinct (exit, defer stack) pairs were observed; oracle: bounded flag <=> no execution repeats a defer statement, and per exit reported set == observed set")
}

func withRT(files map[string]string) map[string]string {
	out := map[string]string{}
	for n, c := range files {
		out["prog/"+n] = c
	}
	for n, c := range gen.RuntimeFiles() {
		if _, ok := out["prog/"+n]; !ok {
			out["prog/"+n] = c
		}
	}
	return out
}

func keysOf(m map[string]map[string]bool) []string {
	var l []string
	for k := range m {
		l = append(l, k)
	}
	sort.Strings(l)
	return l
}

func keysOf2(m map[string]bool) []string {
	var l []string
	for k := range m {
		l = append(l, k)
	}
	sort.Strings(l)
	return l
}

func flat(m map[string]map[string]bool) map[string][]string {
	out := map[string][]string{}
	for k, v := range m {
		out[k] = keysOf2(v)
	}
	return out
}
