package checks

import (
	"fmt"
	"os"
	"path/filepath"
	"regexp"
	"runtime"
	"sort"
	"strings"
	"sync"
	"sync/atomic"
	"time"

	"github.com/awslabs/ar-go-tools/analysis"

	"verif/harness/ana"
	"verif/harness/core"
	"verif/harness/gen"
)

// C20Job is the job of the race-detector child.
type C20Job struct {
	Dir       string            `json:"dir"`
	Runs      []TaintRunSpec    `json:"runs"`
	Reports   map[string]string `json:"reports"` // run name -> reports dir
	YieldSeed int64             `json:"yield_seed"`
	MapPar    bool              `json:"map_par"` // run the MapParallel sweep instead of analyses
	Out       string            `json:"out"`
}

// C20RunResult is the result of one analysis under the race detector.
type C20RunResult struct {
	Name           string           `json:"name"`
	Flows          []ana.FlowPair   `json:"flows"`
	GoroutinesPre  int              `json:"g_pre"`
	GoroutinesPost int              `json:"g_post"`
	HookHits       map[string]int64 `json:"hook_hits"`
	Summaries      []string         `json:"summaries"` // Parent.String() of every non-nil summary at return
	Err            string           `json:"err,omitempty"`
}

// C20Result is the child's answer.
type C20Result struct {
	Runs         []C20RunResult `json:"runs"`
	MapParBad    []string       `json:"map_par_bad"`
	MapParN      int            `json:"map_par_n"`
	MapParOrders int            `json:"map_par_orders"`
}

func raceBinary() string {
	self := core.Self()
	d, b := filepath.Split(self)
	return filepath.Join(d, strings.Replace(b, "vdriver", "vdriver-race", 1))
}

func init() {
	extraWorkers["c20"] = func(jobFile string) {
		var job C20Job
		if err := core.ReadJSON(jobFile, &job); err != nil {
			fmt.Fprintln(os.Stderr, err)
			os.Exit(2)
		}
		res := &C20Result{}
		rng := core.NewRNG(job.YieldSeed, "yield")
		var rmu sync.Mutex
		hits := map[string]*int64{}
		var hmu sync.Mutex
		yield := func(site string) {
			hmu.Lock()
			c := hits[site]
			if c == nil {
				c = new(int64)
				hits[site] = c
			}
			hmu.Unlock()
			atomic.AddInt64(c, 1)
			if strings.HasSuffix(site, ".step") {
				return // loop-head counters: no delay
			}
			rmu.Lock()
			v := rng.Intn(8)
			rmu.Unlock()
			switch {
			case v < 4:
				runtime.Gosched()
			case v < 6:
				time.Sleep(time.Duration(50+v*100) * time.Microsecond)
			}
		}
		analysis.VerifSetHook(yield)
		if job.MapPar {
			mapParSweep(res)
			core.WriteJSON(job.Out, res)
			return
		}
		loaded := map[bool]*ana.Loaded{}
		for _, rs := range job.Runs {
			l := loaded[rs.Rewrites]
			if l == nil {
				var err error
				l, err = ana.Load(job.Dir, rs.Rewrites)
				if err != nil {
					fmt.Fprintln(os.Stderr, "load:", err)
					os.Exit(2)
				}
				loaded[rs.Rewrites] = l
			}
			cfg, err := ana.LoadConfig(rs.Config)
			if err != nil {
				fmt.Fprintln(os.Stderr, "config:", err)
				os.Exit(2)
			}
			hmu.Lock()
			hits = map[string]*int64{}
			hmu.Unlock()
			rr := C20RunResult{Name: rs.Name, HookHits: map[string]int64{}}
			runtime.GC()
			rr.GoroutinesPre = runtime.NumGoroutine()
			tr, full := l.Taint(cfg)
			// settle: bounded number of scheduler yields, not a wall-clock verdict
			for i := 0; i < 3000 && runtime.NumGoroutine() > rr.GoroutinesPre; i++ {
				runtime.Gosched()
				time.Sleep(200 * time.Microsecond)
			}
			rr.GoroutinesPost = runtime.NumGoroutine()
			rr.Flows = tr.Flows
			rr.Err = tr.Err
			if full.State != nil && full.State.FlowGraph != nil {
				for _, s := range full.State.FlowGraph.Summaries {
					if s != nil && s.Parent != nil {
						rr.Summaries = append(rr.Summaries, s.Parent.String())
					}
				}
				sort.Strings(rr.Summaries)
			}
			hmu.Lock()
			for k, v := range hits {
				rr.HookHits[k] = atomic.LoadInt64(v)
			}
			hmu.Unlock()
			res.Runs = append(res.Runs, rr)
		}
		core.WriteJSON(job.Out, res)
	}
}

type mpElt struct {
	ID  int
	Val string
}

func mapParSweep(res *C20Result) {
	lengths := []int{}
	for n := 0; n <= 40; n++ {
		lengths = append(lengths, n)
	}
	lengths = append(lengths, 100, 1000)
	orders := map[string]bool{}
	for _, n := range lengths {
		in := make([]mpElt, n)
		for i := range in {
			in[i] = mpElt{ID: i, Val: fmt.Sprintf("v%d", i)}
		}
		f := func(e mpElt) string { return fmt.Sprintf("%d:%s!", e.ID, e.Val) }
		want := make([]string, n)
		for i, e := range in {
			want[i] = f(e)
		}
		for w := -1; w <= 20; w++ {
			var omu sync.Mutex
			var order []string
			g := func(e mpElt) string {
				if n <= 8 {
					omu.Lock()
					order = append(order, fmt.Sprint(e.ID))
					omu.Unlock()
				}
				return f(e)
			}
			gPre := runtime.NumGoroutine()
			got := analysis.VerifMapParallel(in, g, w)
			for k := 0; k < 2000 && runtime.NumGoroutine() > gPre; k++ {
				runtime.Gosched()
				time.Sleep(50 * time.Microsecond)
			}
			if gPost := runtime.NumGoroutine(); gPost > gPre {
				res.MapParBad = append(res.MapParBad, fmt.Sprintf("len=%d workers=%d: %d goroutines before the call, %d after it returned (leak)", n, w, gPre, gPost))
			}
			res.MapParN++
			if n <= 8 && n > 1 {
				orders[fmt.Sprintf("%d/%s", n, strings.Join(order, ","))] = true
			}
			if len(got) != len(want) {
				res.MapParBad = append(res.MapParBad, fmt.Sprintf("len=%d workers=%d: result has %d elements", n, w, len(got)))
				continue
			}
			for i := range want {
				if got[i] != want[i] {
					res.MapParBad = append(res.MapParBad, fmt.Sprintf("len=%d workers=%d: result[%d]=%q, sequential map gives %q", n, w, i, got[i], want[i]))
					break
				}
			}
		}
	}
	res.MapParOrders = len(orders)
}

var reRaceBlock = regexp.MustCompile(`(?s)WARNING: DATA RACE.*?==================`)
var reFrame = regexp.MustCompile(`(?m)^\s+([^\s(]+)\(.*\)\n\s+(\S+):(\d+)`)

// parseRaceLogs returns de-duplicated race reports: key = line-stripped stack pair (top 3 frames of both accesses).
func parseRaceLogs(glob string) (map[string]string, int) {
	files, _ := filepath.Glob(glob)
	out := map[string]string{}
	total := 0
	for _, f := range files {
		data, _ := os.ReadFile(f)
		for _, blk := range reRaceBlock.FindAllString(string(data), -1) {
			total++
			parts := strings.Split(blk, "\n\n")
			var key []string
			for _, p := range parts[:min(2, len(parts))] {
				fr := reFrame.FindAllStringSubmatch(p, 3)
				for _, m := range fr {
					key = append(key, m[1])
				}
				key = append(key, "|")
			}
			k := strings.Join(key, " ")
			if _, ok := out[k]; !ok {
				out[k] = blk
			}
		}
	}
	return out, total
}

var optionSets = []struct {
	Name  string
	Extra string
}{
	{"plain", ""},
	{"summaries", "  report-summaries: true\n"},
	{"paths", "  report-paths: true\n"},
	{"coverage", "  report-coverage: true\n"},
	{"nocallee", "  report-no-callee-sites: true\n"},
	{"all", "  report-summaries: true\n  report-paths: true\n  report-coverage: true\n  report-no-callee-sites: true\n"},
	{"sum-paths", "  report-summaries: true\n  report-paths: true\n"},
	{"sum-cov", "  report-summaries: true\n  report-coverage: true\n"},
}

// logLevels are crossed with the option sets: some code only runs at debug/trace verbosity.
var logLevels = []int{1, 4}

// C20 — the analyzer's own parallelism: Go race detector over the real analysis driver, MapParallel against the
// sequential map, goroutine leaks, completeness of report files at return.
func C20(tier string) {
	run := core.NewRun("C20", tier)
	race := raceBinary()
	if _, err := os.Stat(race); err != nil {
		run.Inconclusive("race-detector build of the driver is missing: " + race)
		run.Finish("exploration", "no race binary")
	}
	// (1) MapParallel sweep under the race detector with yields at the worker hook.
	{
		dir := filepath.Join(run.Scratch, "mappar")
		_ = os.MkdirAll(dir, 0o755)
		job := &C20Job{MapPar: true, YieldSeed: run.SeedV, Out: filepath.Join(dir, "out.json")}
		jf := filepath.Join(dir, "job.json")
		core.WriteJSON(jf, job)
		logp := filepath.Join(dir, "race")
		cr := core.RunChild([]string{race, "worker", "c20", jf}, []string{"GORACE=halt_on_error=0 exitcode=0 log_path=" + logp}, filepath.Join(dir, "child.log"), 20*time.Minute)
		var res C20Result
		if cr.Status != "ok" || core.ReadJSON(job.Out, &res) != nil {
			data, _ := os.ReadFile(cr.LogFile)
			if cr.Status == "watchdog" {
				run.Violation("mapparallel-stuck", "MapParallel sweep did not finish (deadlock?): "+tailStr(string(data), 4000), map[string]string{})
			} else {
				run.Violation("mapparallel-crash", "MapParallel sweep crashed: "+tailStr(string(data), 4000), map[string]string{})
			}
		} else {
			run.Eval(res.MapParN)
			run.Cov["mapparallel_calls"] = res.MapParN
			run.Cov["mapparallel_distinct_completion_orders_seen(len<=8)"] = res.MapParOrders
			for i, b := range res.MapParBad {
				if i < 3 {
					run.Violation("mapparallel-order", "MapParallel differs from the sequential map: "+b, map[string]string{})
				}
			}
			for i := 0; i < res.MapParOrders && i < 4000; i++ {
				run.Distinct(fmt.Sprintf("mp-order-%d", i))
			}
		}
		races, total := parseRaceLogs(logp + ".*")
		run.Cov["mapparallel_race_reports"] = total
		for k, blk := range races {
			run.Violation("race:"+k, "data race in MapParallel:\n"+blk, map[string]string{"race.txt": blk})
		}
	}
	// (2) the analysis under the race detector.
	nProgs, optN := 2, 3
	if tier == "thorough" {
		nProgs, optN = 4, len(optionSets)
	}
	links := gen.AllLinks(nil, []string{"conc", "guard"})
	r := core.NewRNG(run.SeedV, "c20-"+tier)
	var batches []*gen.Batch
	for p := 0; p < nProgs; p++ {
		var chains []gen.Chain
		for i := 0; i < 30; i++ {
			n := 1 + r.Intn(3)
			var l []string
			for j := 0; j < n; j++ {
				l = append(l, links[r.Intn(len(links))])
			}
			chains = append(chains, gen.Chain{ID: i + 1, Links: l})
		}
		batches = append(batches, &gen.Batch{Chains: chains})
	}
	type progRes struct {
		res   *C20Result
		names []string
	}
	totalReports := 0
	var mu sync.Mutex
	hookTotals := map[string]int64{}
	core.Parallel(len(batches), 4, func(pi int) {
		b := batches[pi]
		dir := filepath.Join(run.Scratch, fmt.Sprintf("prog%02d", pi))
		files := b.Files()
		if err := gen.WriteProgram(dir, files); err != nil {
			run.Inconclusive(err.Error())
			return
		}
		for _, gmp := range []int{2, 16} {
			job := &C20Job{Dir: dir, YieldSeed: run.SeedV*1000 + int64(pi*10+gmp), Out: filepath.Join(dir, fmt.Sprintf("out-%d.json", gmp)), Reports: map[string]string{}}
			for oi := 0; oi < optN; oi++ {
				os_ := optionSets[(oi+pi)%len(optionSets)]
				for _, od := range []bool{false, true} {
					ll := logLevels[(oi+b2i(od)+pi)%len(logLevels)]
					name := fmt.Sprintf("%s-od%d-p%d-ll%d", os_.Name, b2i(od), gmp, ll)
					rd := filepath.Join(dir, "reports-"+name)
					c := ChainCfg{Name: name, OnDemand: od, Rewrites: true, Extra: os_.Extra + fmt.Sprintf("  reports-dir: %q\n", rd)}
					if ll != 1 {
						c.Extra += fmt.Sprintf("  log-level: %d\n", ll)
					}
					cp := filepath.Join(dir, "cfg-"+name+".yaml")
					_ = os.WriteFile(cp, []byte(c.YAML()), 0o644)
					job.Runs = append(job.Runs, TaintRunSpec{Name: name, Config: cp, Rewrites: true, Repeat: 1})
					job.Reports[name] = rd
				}
			}
			jf := filepath.Join(dir, fmt.Sprintf("job-%d.json", gmp))
			core.WriteJSON(jf, job)
			logp := filepath.Join(dir, fmt.Sprintf("race-%d", gmp))
			cr := core.RunChild([]string{race, "worker", "c20", jf},
				[]string{"GORACE=halt_on_error=0 exitcode=0 log_path=" + logp, fmt.Sprintf("GOMAXPROCS=%d", gmp)},
				filepath.Join(dir, fmt.Sprintf("child-%d.log", gmp)), 30*time.Minute)
			data, _ := os.ReadFile(cr.LogFile)
			if cr.Status == "watchdog" {
				// all goroutines blocked => deadlock witness; otherwise inconclusive
				if strings.Contains(string(data), "all goroutines are asleep") {
					run.Violation("deadlock", "analysis deadlocked:\n"+tailStr(string(data), 6000), withRT(files))
				} else {
					run.Inconclusive(fmt.Sprintf("race child watchdog (program %d, GOMAXPROCS=%d)", pi, gmp))
				}
				continue
			}
			if cr.Status != "ok" {
				sig := "analysis-crash"
				if strings.Contains(string(data), "concurrent map") {
					sig = "concurrent-map-access"
				}
				run.Violation(sig, fmt.Sprintf("analysis child failed (%s):\n%s", cr.Status, tailStr(string(data), 6000)), withRT(files))
				continue
			}
			var res C20Result
			if err := core.ReadJSON(job.Out, &res); err != nil {
				run.Inconclusive(err.Error())
				continue
			}
			races, total := parseRaceLogs(logp + ".*")
			mu.Lock()
			totalReports += total
			mu.Unlock()
			for k, blk := range races {
				sig := "race:" + k
				if run.IsKnown(sig) {
					continue
				}
				fl := withRT(files)
				fl["race.txt"] = blk
				run.Violation(sig, fmt.Sprintf("Go race detector report while analysing program %d (GOMAXPROCS=%d):\n%s", pi, gmp, blk), fl)
			}
			for _, rr := range res.Runs {
				run.Eval(1)
				mu.Lock()
				for k, v := range rr.HookHits {
					hookTotals[k] += v
				}
				mu.Unlock()
				if rr.HookHits["funcutil.MapParallel.worker"] > 0 {
					run.Distinct(fmt.Sprintf("%d/%s", pi, rr.Name))
				}
				if rr.GoroutinesPost > rr.GoroutinesPre {
					sig := "goroutine-leak:" + optName(rr.Name)
					if !run.IsKnown(sig) {
						run.Violation(sig, fmt.Sprintf("run %s: %d goroutines before the analysis, %d after it returned (after 3000 scheduler yields)", rr.Name, rr.GoroutinesPre, rr.GoroutinesPost), withRT(files))
					}
				}
				checkReports(run, rr, job.Reports[rr.Name], files)
			}
		}
	})
	run.Cov["race_reports_total"] = totalReports
	run.Cov["hook_site_hits"] = hookTotals
	run.Cov["gomaxprocs"] = []int{2, 16}
	run.Cov["programs"] = len(batches)
	run.Sample(map[string]any{"option_sets": optionSets[:optN], "modes": []string{"eager", "on-demand"}, "hook_hits": hookTotals})
	run.Assumptions = append(run.Assumptions, "the Go race detector reports only real races (no false positives); absence of a report is evidence only for the schedules that ran",
		"yields/sleeps injected at hook sites between the concurrently running steps widen the interleavings; they cannot create an interleaving the program cannot have")
	run.Finish("exploration", "race-detector build of the real analysis driver (state initialisation steps, NumCPU-1 summary workers, report goroutine) over generated programs x option sets x {eager,on-demand} x GOMAXPROCS{2,16} with seeded yields at hook sites; "+
		"MapParallel for every length 0..40,100,1000 x workers -1..20 against the sequential map; goroutine count before/after; report files checked at return. "+
		"distinct non-trivial = analysis runs in which the parallel worker hook actually fired + distinct MapParallel completion orders observed")
}

func optName(run string) string {
	if i := strings.Index(run, "-od"); i > 0 {
		return run[:i]
	}
	return run
}

var reAt = regexp.MustCompile(`(?m)^At: (.*)$`)

// checkReports verifies that report files are complete once the analysis has returned.
func checkReports(run *core.Run, rr C20RunResult, dir string, files map[string]string) {
	name := optName(rr.Name)
	opt := ""
	for _, o := range optionSets {
		if o.Name == name {
			opt = o.Extra
		}
	}
	if strings.Contains(opt, "report-summaries") {
		m, _ := filepath.Glob(filepath.Join(dir, "summaries-*.out"))
		if len(m) == 0 {
			run.Violation("report-summaries-missing-file", "report-summaries set but no summaries-*.out exists after the analysis returned ("+rr.Name+")", withRT(files))
			return
		}
		have := map[string]bool{}
		for _, f := range m {
			data, _ := os.ReadFile(f)
			for _, line := range strings.Split(string(data), "\n") {
				if strings.HasSuffix(line, ":") && !strings.HasPrefix(line, " ") && !strings.HasPrefix(line, "\t") {
					have[strings.TrimSuffix(line, ":")] = true
				}
			}
		}
		missing := 0
		first := ""
		for _, s := range rr.Summaries {
			if !have[s] {
				missing++
				if first == "" {
					first = s
				}
			}
		}
		if missing > 0 {
			sig := "report-summaries-incomplete"
			if !run.IsKnown(sig) {
				run.Violation(sig, fmt.Sprintf("run %s: summaries report lacks %d of %d summaries when the analysis returns (e.g. %s)", rr.Name, missing, len(rr.Summaries), first), withRT(files))
			}
		}
	}
	if strings.Contains(opt, "report-paths") {
		m, _ := filepath.Glob(filepath.Join(dir, "flow-*.out"))
		have := map[string]bool{}
		for _, f := range m {
			data, _ := os.ReadFile(f)
			ats := reAt.FindAllStringSubmatch(string(data), -1)
			if len(ats) < 2 || !strings.Contains(string(data), "Trace:") {
				run.Violation("report-paths-truncated", "flow report file incomplete: "+string(data), withRT(files))
				continue
			}
			have[lineOf(ats[0][1])+">"+lineOf(ats[1][1])] = true
		}
		for _, fp := range rr.Flows {
			k := fmt.Sprintf("%s:%d>%s:%d", filepath.Base(fp.Src.File), fp.Src.Line, filepath.Base(fp.Snk.File), fp.Snk.Line)
			if !have[k] {
				sig := "report-paths-missing-flow"
				if !run.IsKnown(sig) {
					run.Violation(sig, fmt.Sprintf("run %s: reported flow %s has no flow-*.out file (have %d files)", rr.Name, k, len(m)), withRT(files))
				}
				break
			}
		}
	}
}

func lineOf(pos string) string {
	// file:line:col -> base(file):line
	p := strings.Split(strings.TrimSpace(pos), ":")
	if len(p) < 2 {
		return pos
	}
	return filepath.Base(p[0]) + ":" + p[1]
}
