package checks

import (
	"fmt"
	"os"
	"path/filepath"
	"sort"
	"strings"
	"sync"

	"gopkg.in/yaml.v3"

	"verif/harness/ana"
	"verif/harness/core"
	"verif/harness/gen"
)

// cfgVariant modifies the options of a base configuration.
type cfgVariant struct {
	Name string
	Set  map[string]any // options to set
	// MaxAlarms > 0: subset semantics instead of equality
	MaxAlarms int
}

func c05Variants(tier string, reportsBase string) []cfgVariant {
	rd := func(n string) string { return filepath.Join(reportsBase, "reports-"+n) }
	vs := []cfgVariant{
		{Name: "ondemand", Set: map[string]any{"summarize-on-demand": true}},
		{Name: "pf-none", Set: map[string]any{"pkg-filter": "^$"}},
		// (pkg-filter ".*" would summarise the whole standard library from its bodies: > 20 GB and > 20 min per run;
		// even strconv+unicode alone exhaust 20 GB: the per-function state is instructions x values; a filter that adds a few small std packages to the program's own is the feasible "wider than default" point)
		{Name: "pf-wide", Set: map[string]any{"pkg-filter": "vprog|^path$|^errors$|^sort$"}},
		{Name: "pf-lib", Set: map[string]any{"pkg-filter": "vprog/lib"}},
		{Name: "pf-main-only", Set: map[string]any{"pkg-filter": "^vprog$|^main$|command-line-arguments"}},
		{Name: "reports-all", Set: map[string]any{"report-paths": true, "report-summaries": true, "report-coverage": true, "report-no-callee-sites": true, "reports-dir": rd("all")}},
		{Name: "coverage-filter", Set: map[string]any{"report-coverage": true, "coverage-filter": "vprog", "reports-dir": rd("cov")}},
		{Name: "loglevel-debug", Set: map[string]any{"log-level": 4}},
		{Name: "max-alarms-1", Set: map[string]any{"max-alarms": 1}, MaxAlarms: 1},
		{Name: "max-alarms-2", Set: map[string]any{"max-alarms": 2}, MaxAlarms: 2},
		{Name: "max-alarms-5", Set: map[string]any{"max-alarms": 5}, MaxAlarms: 5},
	}
	if tier == "thorough" {
		vs = append(vs,
			cfgVariant{Name: "ondemand-pf-lib", Set: map[string]any{"summarize-on-demand": true, "pkg-filter": "vprog/lib"}},
			cfgVariant{Name: "ondemand-reports", Set: map[string]any{"summarize-on-demand": true, "report-paths": true, "report-summaries": true, "reports-dir": rd("odrep")}},
			cfgVariant{Name: "report-paths", Set: map[string]any{"report-paths": true, "reports-dir": rd("paths")}},
			cfgVariant{Name: "report-nocallee", Set: map[string]any{"report-no-callee-sites": true, "reports-dir": rd("nocallee")}},
			cfgVariant{Name: "pf-main-prefix", Set: map[string]any{"pkg-filter": "vprog"}},
			cfgVariant{Name: "loglevel-err-silence", Set: map[string]any{"log-level": 1, "silence-warn": true}},
			cfgVariant{Name: "ondemand-max-alarms-1", Set: map[string]any{"summarize-on-demand": true, "max-alarms": 1}, MaxAlarms: 1},
		)
	}
	return vs
}

// deriveConfig parses baseYAML, sets options, absolutises relative file references, and returns the new yaml.
// File references (dataflow-specs, escape-config) are resolved by the tool relative to the directory of the
// configuration file (even when absolute), so they are rewritten relative to cfgDir, where the derived file goes.
func deriveConfig(baseYAML string, origDir string, cfgDir string, set map[string]any) (string, error) {
	relTo := func(s string) string {
		abs := s
		if !filepath.IsAbs(abs) {
			abs = filepath.Join(origDir, s)
		}
		if r, err := filepath.Rel(cfgDir, abs); err == nil {
			return r
		}
		return abs
	}
	var m map[string]any
	if err := yaml.Unmarshal([]byte(baseYAML), &m); err != nil {
		return "", err
	}
	if m == nil {
		m = map[string]any{}
	}
	opts, _ := m["options"].(map[string]any)
	if opts == nil {
		opts = map[string]any{}
	}
	if _, ok := opts["log-level"]; !ok {
		opts["log-level"] = 1
	}
	for k, v := range set {
		opts[k] = v
	}
	for _, k := range []string{"escape-config"} {
		if s, ok := opts[k].(string); ok && s != "" {
			opts[k] = relTo(s)
		}
	}
	m["options"] = opts
	if l, ok := m["dataflow-specs"].([]any); ok {
		for i, x := range l {
			if s, ok := x.(string); ok {
				l[i] = relTo(s)
			}
		}
	}
	out, err := yaml.Marshal(m)
	return string(out), err
}

// realTaintPrograms lists the repository's own taint test programs (dir with main.go + config.yaml).
func realTaintPrograms(sub string) []string {
	root := filepath.Join("/repo/analysis", sub, "testdata")
	if r := os.Getenv("VERIF_REPO"); r != "" {
		root = filepath.Join(r, "analysis", sub, "testdata")
	}
	ents, _ := os.ReadDir(root)
	var out []string
	for _, e := range ents {
		d := filepath.Join(root, e.Name())
		if _, err := os.Stat(filepath.Join(d, "main.go")); err != nil {
			continue
		}
		if _, err := os.Stat(filepath.Join(d, "config.yaml")); err != nil {
			continue
		}
		out = append(out, d)
	}
	sort.Strings(out)
	return out
}

type diffProgram struct {
	Name     string
	Dir      string // program directory to load
	BaseYAML string
	OrigDir  string
	Files    map[string]string // generated files (nil for real programs)
	Batch    *gen.Batch
}

func flowSet(tr ana.TaintResult) map[string]bool {
	m := map[string]bool{}
	for _, f := range tr.Flows {
		m[f.Src.String()+" -> "+f.Snk.String()] = true
	}
	return m
}

func setDiff(a, b map[string]bool) []string {
	var l []string
	for k := range a {
		if !b[k] {
			l = append(l, k)
		}
	}
	sort.Strings(l)
	return l
}

// C05 — options documented as soundness-neutral do not change the verdict.
func C05(tier string) {
	run := core.NewRun("C05", tier)
	var progs []diffProgram
	links := gen.AllLinks(nil, []string{"conc", "guard"})
	r := core.NewRNG(run.SeedV, "c05-"+tier)
	nGen := 3
	if tier == "thorough" {
		nGen = 6
	}
	for p := 0; p < nGen; p++ {
		var chains []gen.Chain
		for i := 0; i < 30; i++ {
			n := 1 + r.Intn(3)
			var l []string
			for j := 0; j < n; j++ {
				l = append(l, links[r.Intn(len(links))])
			}
			chains = append(chains, gen.Chain{ID: i + 1, Links: l})
		}
		b := &gen.Batch{Chains: chains}
		dir := filepath.Join(run.Scratch, fmt.Sprintf("gen%02d", p))
		files := b.Files()
		if err := gen.WriteProgram(dir, files); err != nil {
			run.Inconclusive(err.Error())
			continue
		}
		progs = append(progs, diffProgram{Name: fmt.Sprintf("gen%02d", p), Dir: dir, BaseYAML: ChainCfg{Name: "base", Rewrites: true}.YAML(), OrigDir: dir, Files: files, Batch: b})
	}
	// one fixed program: every link that moves the data through a package-level variable or another package, alone
	{
		var chains []gen.Chain
		for i, l := range gen.AllLinks([]string{"globals", "xpkg"}, []string{"conc", "guard"}) {
			chains = append(chains, gen.Chain{ID: i + 1, Links: []string{l}})
		}
		b := &gen.Batch{Chains: chains}
		dir := filepath.Join(run.Scratch, "genglobals")
		files := b.Files()
		if err := gen.WriteProgram(dir, files); err != nil {
			run.Inconclusive(err.Error())
		} else {
			progs = append(progs, diffProgram{Name: "genglobals", Dir: dir, BaseYAML: ChainCfg{Name: "base", Rewrites: true}.YAML(), OrigDir: dir, Files: files, Batch: b})
		}
	}
	reals := realTaintPrograms("taint")
	if tier == "thorough" {
		// a fixed, seed-independent subset (every program x 23 variants, one child each, is about two hours)
		var sel []string
		for _, d := range reals {
			switch filepath.Base(d) {
			case "basic", "closures", "globals", "interfaces", "fields", "parameters", "interface-summaries", "defers", "tuples", "selects", "sanitizers", "validators", "with-context", "stdlib":
				sel = append(sel, d)
			}
		}
		reals = sel
	}
	if tier != "thorough" {
		// a fixed, seed-independent subset in the quick tier
		var sel []string
		for _, d := range reals {
			switch filepath.Base(d) {
			case "basic", "closures", "globals", "interfaces", "fields":
				sel = append(sel, d)
			}
		}
		reals = sel
	}
	for _, d := range reals {
		data, err := os.ReadFile(filepath.Join(d, "config.yaml"))
		if err != nil {
			continue
		}
		progs = append(progs, diffProgram{Name: "repo-" + filepath.Base(d), Dir: d, BaseYAML: string(data), OrigDir: d})
	}
	var mu sync.Mutex
	comparisons, nonEmpty := 0, 0
	core.Parallel(len(progs), 7, func(pi int) {
		p := progs[pi]
		work := filepath.Join(run.Scratch, "work-"+p.Name)
		_ = os.MkdirAll(work, 0o755)
		variants := c05Variants(tier, work)
		job := &TaintJob{Dir: p.Dir, Out: filepath.Join(work, "out.json")}
		write := func(name string, set map[string]any) bool {
			y, err := deriveConfig(p.BaseYAML, p.OrigDir, work, set)
			if err != nil {
				run.Inconclusive(p.Name + ": cannot derive config: " + err.Error())
				return false
			}
			cp := filepath.Join(work, "cfg-"+name+".yaml")
			_ = os.WriteFile(cp, []byte(y), 0o644)
			job.Runs = append(job.Runs, TaintRunSpec{Name: name, Config: cp, Rewrites: true, Repeat: 1})
			return true
		}
		if !write("base", map[string]any{}) {
			return
		}
		for _, v := range variants {
			write(v.Name, v.Set)
		}
		// one supervised child per variant: an analyzer state can take gigabytes on programs that import much of the
		// standard library, and states of successive runs in one process are not always released in time
		res := TaintJobResult{Results: map[string][]ana.TaintResult{}}
		failed := false
		for ri, rs := range job.Runs {
			one := &TaintJob{Dir: job.Dir, Runs: []TaintRunSpec{rs}, Out: filepath.Join(work, fmt.Sprintf("out-%d.json", ri))}
			jf := filepath.Join(work, fmt.Sprintf("job-%d.json", ri))
			core.WriteJSON(jf, one)
			cr := SpawnWorker("taint", jf, 0)
			if cr.Status != "ok" {
				data, _ := os.ReadFile(cr.LogFile)
				if cr.Status == "panic" {
					run.Violation("analyzer-panic:"+p.Name+":"+rs.Name, "analysis crashed under option variant "+rs.Name+": "+tailStr(string(data), 3000), map[string]string{"log.txt": tailStr(string(data), 20000)})
				} else {
					run.Inconclusive(p.Name + "/" + rs.Name + ": worker " + cr.Status + " " + tailStr(string(data), 200))
				}
				failed = true
				break
			}
			var r1 TaintJobResult
			if err := core.ReadJSON(one.Out, &r1); err != nil || r1.Err != "" {
				if strings.HasPrefix(p.Name, "repo-") && strings.Contains(r1.Err, "load:") {
					return // not loadable as a plain package directory: skipped
				}
				run.Inconclusive(fmt.Sprintf("%s/%s: %v %s", p.Name, rs.Name, err, r1.Err))
				failed = true
				break
			}
			for k, v := range r1.Results {
				res.Results[k] = v
			}
		}
		if failed {
			return
		}
		base := flowSet(res.Results["base"][0])
		mu.Lock()
		if len(base) > 0 {
			nonEmpty++
		}
		mu.Unlock()
		run.Eval(1)
		for _, v := range variants {
			reps := res.Results[v.Name]
			if len(reps) == 0 {
				continue
			}
			got := flowSet(reps[0])
			mu.Lock()
			comparisons++
			mu.Unlock()
			files := map[string]string{}
			if p.Files != nil {
				files = withRT(p.Files)
			}
			for _, n := range []string{"base", v.Name} {
				if data, err := os.ReadFile(filepath.Join(work, "cfg-"+n+".yaml")); err == nil {
					files["cfg-"+n+".yaml"] = string(data)
				}
			}
			files["program.txt"] = p.Dir
			if v.MaxAlarms > 0 {
				extra := setDiff(got, base)
				switch {
				case len(extra) > 0:
					run.Violation("max-alarms-not-subset:"+p.Name, fmt.Sprintf("%s with %s reports pairs the unlimited run does not: %v", p.Name, v.Name, firstN(extra, 3)), files)
				case len(got) > v.MaxAlarms:
					run.Violation("max-alarms-exceeded:"+p.Name, fmt.Sprintf("%s with %s reports %d pairs", p.Name, v.Name, len(got)), files)
				case len(base) > 0 && len(got) == 0:
					run.Violation("max-alarms-empty:"+p.Name, fmt.Sprintf("%s with %s reports nothing although the unlimited run reports %d pairs", p.Name, v.Name, len(base)), files)
				}
				if len(base) > v.MaxAlarms {
					run.Distinct(p.Name + "/" + v.Name)
				}
				continue
			}
			missing, extra := setDiff(base, got), setDiff(got, base)
			if len(base) > 0 {
				run.Distinct(p.Name + "/" + v.Name)
			}
			if len(missing) == 0 && len(extra) == 0 {
				continue
			}
			sig := fmt.Sprintf("differs:%s:%s", v.Name, describeDiff(p, missing, extra))
			if run.IsKnown(sig) {
				continue
			}
			run.Violation(sig, fmt.Sprintf("program %s: option variant %s changes the reported pair set: base has %d pairs; missing under the variant %v; extra under the variant %v",
				p.Name, v.Name, len(base), firstN(missing, 4), firstN(extra, 4)), files)
		}
		if pi == 0 {
			run.Sample(map[string]any{"program": p.Name, "base_pairs": len(base), "variants": len(variants), "first_pairs": firstN(setDiff(base, map[string]bool{}), 3)})
		}
	})
	run.Cov["programs"] = len(progs)
	run.Cov["programs_with_nonempty_base_result"] = nonEmpty
	run.Cov["set_comparisons"] = comparisons
	run.Assumptions = append(run.Assumptions, "differential monitor: no execution of the analysed program is needed, the statement compares the tool with itself")
	run.Finish("exploration", "each program (generated chain batches and the repository's own multi-file taint test programs) is analysed under a base configuration and under each option variant "+
		"(on-demand, four pkg-filters, report-*/coverage/log options, max-alarms 1/2/5) in one supervised child; reported (source,sink) position sets are compared (equality; subset/size/non-emptiness for max-alarms); "+
		"distinct non-trivial = (program, variant) with a non-empty base result")
}

// describeDiff gives a stable, program-independent description of a set difference for generated programs
// (link sequences of the chains involved) and the program name for real programs.
func describeDiff(p diffProgram, missing, extra []string) string {
	if p.Batch == nil {
		return p.Name
	}
	sites := gen.ScanSites(p.Files)
	chainOf := map[int]string{}
	for _, ch := range p.Batch.Chains {
		chainOf[ch.ID] = gen.Key(ch.Links)
	}
	desc := func(l []string, tag string) []string {
		var out []string
		for _, e := range l {
			parts := strings.Split(e, " -> ")
			if len(parts) != 2 {
				continue
			}
			s, k := sites.SrcLine[parts[0]], sites.SnkLine[parts[1]]
			out = append(out, fmt.Sprintf("%s[%s=>%s]", tag, chainOf[s], chainOf[k]))
		}
		sort.Strings(out)
		if len(out) > 2 {
			out = out[:2]
		}
		return out
	}
	return strings.Join(append(desc(missing, "missing"), desc(extra, "extra")...), ",")
}
