package checks

import (
	"strings"

	"verif/harness/core"
	"verif/harness/gen"
)

func c13Opts() ChainOpts {
	cfgs := []ChainCfg{
		{Name: "esc-eager", Rewrites: true, Extra: "  use-escape-analysis: true\n"},
		{Name: "esc-ondemand", OnDemand: true, Rewrites: true, Extra: "  use-escape-analysis: true\n"},
	}
	return ChainOpts{Cfgs: cfgs, Repeat: 1}
}

// c13Accept: with escape analysis on, an observed flow is also covered when its source is reported as data
// escaping its origin thread.
func c13Accept(o *BatchOutcome, cfg string, rep int, p Pair) bool {
	reps := o.Escaped[cfg]
	return rep < len(reps) && reps[rep][p.Src]
}

func init() {
	chainOptsByCheck["C13"] = c13Opts
	acceptByCheck["C13"] = c13Accept
}

// C13 — with escape analysis on, concurrency cannot hide a flow silently.
func C13(tier string) {
	run := core.NewRun("C13", tier)
	conc := gen.AllLinks([]string{"conc"}, nil)
	plain := gen.AllLinks(nil, []string{"conc", "guard"})
	bad := map[string]bool{}
	for _, k := range core.LoadKnown("C01") {
		bad[k.Sig] = true
		if strings.Contains(k.Sig, ">") && !strings.HasPrefix(k.Sig, "*") {
			for _, l := range strings.Split(k.Sig, ">") {
				bad[l] = true // links of the closure family, see c01.go
			}
		}
	}
	var okPlain []string
	for _, l := range plain {
		if !bad[l] {
			okPlain = append(okPlain, l)
		}
	}
	var chains []gen.Chain
	id := 1
	add := func(l ...string) {
		chains = append(chains, gen.Chain{ID: id, Links: append([]string{}, l...)})
		id++
	}
	for _, c := range conc {
		add(c)
	}
	for _, a := range conc {
		for _, b := range conc {
			add(a, b)
		}
	}
	r := core.NewRNG(run.SeedV, "c13-"+tier)
	nRand := 60
	if tier == "thorough" {
		nRand = 400
	}
	if tier == "smoke" {
		chains = chains[:len(conc)]
		nRand = 0
	}
	for i := 0; i < nRand; i++ {
		var l []string
		for k := r.Intn(3); k > 0; k-- {
			l = append(l, okPlain[r.Intn(len(okPlain))])
		}
		l = append(l, conc[r.Intn(len(conc))])
		for k := r.Intn(3); k > 0; k-- {
			l = append(l, okPlain[r.Intn(len(okPlain))])
		}
		add(l...)
	}
	opts := c13Opts()
	outs := ProcessBatches(run, "b", toBatches(chains, 30), opts)
	escHits := 0
	for _, o := range outs {
		for _, reps := range o.Escaped {
			for _, e := range reps {
				escHits += len(e)
			}
		}
	}
	finishChains(run, outs, opts, c13Accept, "")
	run.Cov["sources_reported_as_escaping"] = escHits
	run.Cov["concurrent_links"] = conc
	run.Assumptions = append(run.Assumptions, "hand-offs between goroutines are ordered (channels, WaitGroup, mutex) so that the flow really happens in every native run",
		"an observed flow is covered by a taint-flow report OR by an escape report naming its source")
	run.Finish("exploration", "chains whose middle link moves the data across a goroutine boundary (channel, go-call argument, captured variable, shared struct/map, global, worker function, mutex-protected field, pipeline, method) alone, in ordered pairs and embedded in random chains, analysed with use-escape-analysis: true, eager and on-demand; "+
		"non-trivial = chain whose flow was observed natively; oracle: the (source, sink) pair is in Sinks or the source is among the sources of an Escapes entry")
}
