package checks

import (
	"strings"

	"verif/harness/core"
	"verif/harness/gen"
)

const c02Problem = `    sanitizers:
      - package: "vprog/rt$"
        method: "^Sanitize$"
    validators:
      - package: "vprog/rt$"
        method: "^Validate(Any|Err)?$"
`

// c02Observe turns an event log into obligations: a raw (unsanitised) marker at a sink is an obligation unless an
// earlier validator call on a value carrying that marker returned valid in the same chain execution. Deliberately
// lenient (validating any value carrying the marker validates it), so that the check never demands more than the
// property states.
func c02Observe(evs []gen.Event, add func(Pair)) {
	validated := map[int]bool{}
	for _, ev := range evs {
		switch ev.Kind {
		case "B":
			validated = map[int]bool{}
		case "V":
			if ev.OK {
				for _, m := range ev.Raw {
					validated[m] = true
				}
			}
		case "K":
			for _, m := range ev.Raw {
				if !validated[m] {
					add(Pair{m, ev.ID})
				}
			}
		}
	}
}

func c02Opts(full bool) ChainOpts {
	all := StdCfgs(false)
	cfgs := []ChainCfg{all[0], all[3], all[4]}
	if full {
		cfgs = all
	}
	for i := range cfgs {
		cfgs[i].Problem = c02Problem
	}
	return ChainOpts{Cfgs: cfgs, Repeat: 1, VBitsN: 2, Observe: c02Observe}
}

func init() { chainOptsByCheck["C02"] = func() ChainOpts { return c02Opts(true) } }

// C02 — sanitizers and validators only suppress flows that really pass through them.
func C02(tier string) {
	run := core.NewRun("C02", tier)
	guards := gen.AllLinks([]string{"guard"}, nil)
	plain := gen.AllLinks(nil, []string{"conc", "guard"})
	known := core.LoadKnown("C01")
	bad := map[string]bool{}
	for _, k := range known {
		bad[k.Sig] = true
		if strings.Contains(k.Sig, ">") && !strings.HasPrefix(k.Sig, "*") {
			for _, l := range strings.Split(k.Sig, ">") {
				bad[l] = true // links of the closure family, see c01.go
			}
		}
	}
	// ordinary links around the guards are drawn from links without single-link C01 findings: C02 is about the guards
	var okPlain []string
	for _, l := range plain {
		if !bad[l] {
			okPlain = append(okPlain, l)
		}
	}
	var chains []gen.Chain
	id := 1
	add := func(l ...string) {
		chains = append(chains, gen.Chain{ID: id, Links: append([]string{}, l...)})
		id++
	}
	for _, g := range guards {
		add(g)
	}
	// every ordered pair of guards
	for _, a := range guards {
		for _, b := range guards {
			add(a, b)
		}
	}
	r := core.NewRNG(run.SeedV, "c02-"+tier)
	nRand := 120
	if tier == "thorough" {
		nRand = 600
	}
	if tier == "smoke" {
		chains = chains[:len(guards)]
		nRand = 10
	}
	for i := 0; i < nRand; i++ {
		var l []string
		for k := r.Intn(3); k > 0; k-- {
			l = append(l, okPlain[r.Intn(len(okPlain))])
		}
		l = append(l, guards[r.Intn(len(guards))])
		if r.Intn(3) == 0 {
			l = append(l, guards[r.Intn(len(guards))])
		}
		for k := r.Intn(3); k > 0; k-- {
			l = append(l, okPlain[r.Intn(len(okPlain))])
		}
		add(l...)
	}
	opts := c02Opts(tier == "thorough")
	outs := ProcessBatches(run, "b", toBatches(chains, 40), opts)
	finishChains(run, outs, opts, nil, "")
	run.Cov["guard_links"] = guards
	run.Assumptions = append(run.Assumptions,
		"the native sanitizer rewrites markers, so a raw marker at a sink means unsanitised data arrived; validator outcomes are opaque inputs enumerated exhaustively (2 per chain execution)",
		"leniency: a positive validation of any value carrying the marker, earlier in the same chain execution, waives the obligation")
	run.Finish("exploration", "chains with sanitizer/validator links (23 shapes incl. one-arm validation, bypass path, negated validator, err != nil fall-through, ignored result, validation in callee/on a copy) alone, in every ordered pair, and embedded in random chains; "+
		"executed under all 2^6 branch inputs x 2^2 validator outcomes; non-trivial = chain for which some execution delivered the raw marker to the sink without a prior positive validation; oracle: such a flow must be reported with the sanitizer/validator specs configured")
}
