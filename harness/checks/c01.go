package checks

import (
	"fmt"
	"hash/fnv"
	"os"
	"regexp"
	"sort"
	"strings"
	"time"

	"verif/harness/core"
	"verif/harness/gen"
)

// chainWorkload builds the deterministic chain list of a tier: all 1-link chains, a fixed sample of 2-link
// chains, and seed-dependent longer chains.
func chainWorkload(seed int64, tier string, links []string, nPairs, nLong, maxLen int) []gen.Chain {
	var chains []gen.Chain
	id := 1
	add := func(l []string) {
		chains = append(chains, gen.Chain{ID: id, Links: l})
		id++
	}
	if only := os.Getenv("VERIF_ONLY_LINKS"); only != "" {
		// development aid: just these links, each alone
		for _, l := range strings.Split(only, ",") {
			add([]string{l})
		}
		return chains
	}
	for _, l := range links {
		add([]string{l})
	}
	// sink forms (deferred, in a goroutine, in a loop, inside a callback invoked by user code / by the standard
	// library): directly after the source, and behind a value link, a call link and a struct link
	if nPairs > 0 && len(links) > 60 {
		for _, f := range gen.SinkFormNames() {
			add([]string{f})
			for _, l := range []string{"concat", "idcall", "structfield"} {
				add([]string{l, f})
			}
		}
	}
	// fixed (seed-independent) sample of ordered pairs
	n := len(links)
	if nPairs >= n*n {
		for _, a := range links {
			for _, b := range links {
				add([]string{a, b})
			}
		}
	} else {
		// membership of a pair depends only on the two names (not on the size of the library), so that adding links
		// adds pairs but never reshuffles the existing sample: rate = nPairs / 220^2
		thr := uint64(float64(nPairs) / 48400.0 * float64(1<<32))
		type hp struct {
			h    uint64
			a, b string
		}
		var sel []hp
		for _, a := range links {
			for _, b := range links {
				h := fnv.New64a()
				_, _ = h.Write([]byte("pair:" + a + ">" + b))
				if v := (h.Sum64() >> 7) & 0xffffffff; v < thr {
					sel = append(sel, hp{v, a, b})
				}
			}
		}
		// in hash order, so that a batch mixes link families (a batch of pairs that all start with global links makes
		// the backward analysis explode: every global read goes to every global write)
		sort.Slice(sel, func(i, j int) bool {
			if sel[i].h != sel[j].h {
				return sel[i].h < sel[j].h
			}
			return sel[i].a+">"+sel[i].b < sel[j].a+">"+sel[j].b
		})
		for _, p := range sel {
			add([]string{p.a, p.b})
		}
	}
	// Seed-dependent longer chains draw from the links that take part in no listed pair finding: the closure family
	// fails in so many multi-link combinations on the pinned tree (all listed for pairs, not enumerable for triples)
	// that random long chains over it would only rediscover unlisted variants of the same defect. Those links stay
	// fully covered by the fixed parts above (all singles, fixed pairs).
	fragile := map[string]bool{}
	for _, k := range core.LoadKnown("C01") {
		if strings.Contains(k.Sig, ">") && !strings.HasPrefix(k.Sig, "*") {
			for _, l := range strings.Split(k.Sig, ">") {
				fragile[l] = true
			}
		}
	}
	var stable []string
	for _, l := range links {
		if !fragile[l] {
			stable = append(stable, l)
		}
	}
	r := core.NewRNG(seed, "long-"+tier)
	for i := 0; i < nLong; i++ {
		ln := 3 + r.Intn(maxLen-2)
		var l []string
		for j := 0; j < ln; j++ {
			l = append(l, stable[r.Intn(len(stable))])
		}
		add(l)
	}
	return chains
}

func toBatches(chains []gen.Chain, per int) []*gen.Batch {
	var bs []*gen.Batch
	for i := 0; i < len(chains); i += per {
		j := i + per
		if j > len(chains) {
			j = len(chains)
		}
		bs = append(bs, &gen.Batch{Chains: chains[i:j]})
	}
	return bs
}

// C01 — every explicit source->sink flow observed natively is reported by the taint analysis under every
// soundness-preserving configuration.
func C01(tier string) {
	run := core.NewRun("C01", tier)
	links := gen.AllLinks(nil, []string{"conc", "guard"})
	var chains []gen.Chain
	cfgs := StdCfgs(false)
	if tier == "thorough" {
		chains = chainWorkload(run.SeedV, tier, links, 1200, 200, 8)
		cfgs = StdCfgs(true)
	} else {
		chains = chainWorkload(run.SeedV, tier, links, 600, 150, 6)
		cfgs = []ChainCfg{cfgs[0], cfgs[3], cfgs[4], cfgs[6]} // fs0-od0-rw1, fs0-od1-rw0, fs1-od0-rw1, fs1-od1-rw1
	}
	if tier == "triage" {
		chains = chainWorkload(run.SeedV, tier, links, 0, 0, 3)
		cfgs = StdCfgs(true)
	}
	if tier == "dbgbatch" {
		// development aid: rebuild the triage2 batch that contains pair VERIF_DBG_PAIR and shrink it while the pair still misses
		known := run.KnownSigs()
		var ok []string
		for _, l := range links {
			if !known[l] {
				ok = append(ok, l)
			}
		}
		all := chainWorkload(run.SeedV, "triage2", ok, len(ok)*len(ok), 0, 3)
		var pairs []gen.Chain
		for _, ch := range all {
			if len(ch.Links) == 2 {
				pairs = append(pairs, ch)
			}
		}
		target := os.Getenv("VERIF_DBG_PAIR")
		bs := toBatches(pairs, 45)
		var cur []gen.Chain
		for _, b := range bs {
			for _, ch := range b.Chains {
				if gen.Key(ch.Links) == target {
					cur = b.Chains
				}
			}
		}
		sc := StdCfgs(false)
		opts := ChainOpts{Cfgs: []ChainCfg{sc[0]}, Repeat: 1}
		misses := func(cs []gen.Chain, tag string) bool {
			o := processBatch(run, tag, &gen.Batch{Chains: cs}, opts)
			for _, m := range FindMisses(o, opts.Cfgs, nil) {
				if gen.Key(m.Chain.Links) == target {
					return true
				}
			}
			return false
		}
		fmt.Println("batch size", len(cur), "misses:", misses(cur, "dbg0"))
		step := 0
		for i := 0; i < len(cur); {
			if gen.Key(cur[i].Links) == target {
				i++
				continue
			}
			step++
			cand := append(append([]gen.Chain{}, cur[:i]...), cur[i+1:]...)
			if misses(cand, fmt.Sprintf("dbg%d", step)) {
				cur = cand
			} else {
				i++
			}
		}
		for _, ch := range cur {
			fmt.Println("KEEP", ch.ID, gen.Key(ch.Links))
		}
		os.Exit(0)
	}
	if tier == "triage2" {
		// development aid: every ordered pair of links that are not single-link known findings
		known := run.KnownSigs()
		var ok []string
		for _, l := range links {
			if !known[l] {
				ok = append(ok, l)
			}
		}
		chains = chainWorkload(run.SeedV, tier, ok, len(ok)*len(ok), 0, 3)
		all := StdCfgs(false)
		cfgs = []ChainCfg{all[0], all[3]} // field-insensitive only: eager+rewrites, on-demand without rewrites
		opts := ChainOpts{Cfgs: cfgs, Repeat: 1}
		var pairs []gen.Chain
		firsts := map[string]bool{}
		for _, f := range strings.Split(os.Getenv("VERIF_T2_FIRST"), ",") {
			if f != "" {
				firsts[f] = true
			}
		}
		for _, ch := range chains {
			if len(ch.Links) == 2 && (len(firsts) == 0 || firsts[ch.Links[0]]) {
				pairs = append(pairs, ch)
			}
		}
		batches := toBatches(pairs, 45)
		// incremental: print the failing pairs of each batch as soon as it is done
		core.Parallel(len(batches), 8, func(bi int) {
			o := processBatch(run, fmt.Sprintf("t2-%04d", bi), batches[bi], opts)
			if o.Status != "ok" {
				var ks []string
				for _, ch := range o.Batch.Chains {
					ks = append(ks, gen.Key(ch.Links))
				}
				fmt.Printf("TRIAGE2 batch %d status %s %s chains=%v\n", bi, o.Status, firstLine(o.Detail), ks)
				_ = os.RemoveAll(o.Dir)
				return
			}
			for _, m := range FindMisses(o, cfgs, nil) {
				fmt.Printf("TRIAGE2 MISS %s cfgs=%v\n", gen.Key(m.Chain.Links), m.Cfgs)
			}
			_ = os.RemoveAll(o.Dir)
		})
		fmt.Println("TRIAGE2 DONE")
		_ = os.RemoveAll(run.Scratch)
		os.Exit(0)
	}
	opts := ChainOpts{Cfgs: cfgs, Repeat: 1}
	batches := toBatches(chains, 45)
	outs := ProcessBatches(run, "b", batches, opts)
	finishChains(run, outs, opts, nil, "")
	secondSourcePhase(run, links, tier)
	run.Assumptions = append(run.Assumptions,
		"Go compiler/runtime correct; end-point functions of package vprog/rt differ between analysed (stub) and executed (native) builds only in bodies that are irrelevant by specification",
		"marker substring observed in memory reachable from the sink argument => explicit data flow from that source call",
		"fragment guard: chains whose call-graph-reachable, body-summarised functions use reflect/unsafe/recover are waived (conservative)")
	run.Finish("exploration", "chain programs (source; string->string links; sink) executed natively under all 2^6 opaque inputs; a case is "+
		"non-trivial iff the monitor observed the source marker at the sink; distinct = distinct link sequences with an observed flow; "+
		"oracle: observed (source site, sink site) pairs must be reported by taint.Analyze under every configuration")
}

// finishChains compares, attributes and fills in coverage for chain-batch based checks.
func finishChains(run *core.Run, outs []*BatchOutcome, opts ChainOpts,
	accept func(o *BatchOutcome, cfg string, rep int, p Pair) bool, sigSuffix string) {
	var misses []Miss
	observedChains, waived, unobserved, inputs, reportedPairs := 0, 0, 0, 0, 0
	var unobs []string
	for _, o := range outs {
		if o.Status != "ok" {
			if o.Status == "analyzer-panic" {
				// a crash is identified by where it happens (panic message class + innermost analyzer frames), not by
				// which chains trigger it: a change that makes the analyzer crash somewhere else has another signature
				sig := "analyzer-panic:" + crashSignature(o.Detail) + sigSuffix
				if !run.IsKnown(sig) {
					run.Violation(sig, "analyzer crashed on a generated batch:\n"+o.Detail, withRT(o.Files))
				}
			} else {
				run.Inconclusive(fmt.Sprintf("batch %d: %s: %s", o.Index, o.Status, firstLine(o.Detail)))
				if o.Status == "native-fail" {
					fmt.Println(o.Detail)
				}
			}
			continue
		}
		for _, cc := range o.CfgCrash {
			if cc[1] == "panic" {
				sig := "analyzer-panic:" + crashSignature(cc[2]) + sigSuffix
				if !run.IsKnown(sig) {
					run.Violation(sig, "analyzer crashed under configuration "+cc[0]+" on a generated batch:\n"+cc[2], withRT(o.Files))
				}
			} else {
				run.Inconclusive(fmt.Sprintf("batch %d config %s: child %s", o.Index, cc[0], cc[1]))
			}
		}
		inputs += o.Inputs
		for _, reps := range o.Reported {
			for _, r := range reps {
				reportedPairs += len(r)
			}
		}
		for _, ch := range o.Batch.Chains {
			run.Eval(1)
			if _, ok := o.Observed[Pair{ch.ID, ch.ID}]; !ok {
				unobserved++
				unobs = append(unobs, gen.Key(ch.Links))
				continue
			}
			if _, w := o.Waived[ch.ID]; w {
				waived++
				continue
			}
			observedChains++
			run.Distinct(gen.Key(ch.Links))
			if ch.ID%37 == 0 {
				run.Sample(map[string]any{"chain": ch.Links, "observed_on_input": o.Observed[Pair{ch.ID, ch.ID}],
					"source_site": o.Sites.SrcOf[ch.ID], "sink_site": o.Sites.SnkOf[ch.ID], "reported_by_all_configs": true})
			}
		}
		misses = append(misses, FindMisses(o, opts.Cfgs, accept)...)
	}
	Attribute(run, misses, opts, accept, sigSuffix)
	sort.Strings(unobs)
	if len(unobs) > 20 {
		unobs = unobs[:20]
	}
	run.Cov["chains_with_observed_flow"] = observedChains
	run.Cov["chains_waived_by_fragment_guard"] = waived
	run.Cov["chains_without_observed_flow"] = unobserved
	run.Cov["chains_without_observed_flow_samples"] = unobs
	run.Cov["native_executions"] = inputs
	run.Cov["reported_pairs_total"] = reportedPairs
	run.Cov["misses_before_attribution"] = len(misses)
	var cn []string
	for _, c := range opts.Cfgs {
		cn = append(cn, c.Name)
	}
	run.Cov["configs"] = cn
	run.Cov["programs"] = len(outs)
}

func copyFiles(o *BatchOutcome) map[string]string {
	files := map[string]string{}
	for n, c := range o.Files {
		files["prog/"+n] = c
	}
	return files
}

// minimizeCrash delta-debugs a crashing batch: halves while one half still crashes, then removes chains one at a
// time (bounded), re-running the analyzer each time.
func minimizeCrash(run *core.Run, chains []gen.Chain, opts ChainOpts, tag string) []gen.Chain {
	opts.Watchdog = 5 * time.Minute
	crashes := func(cs []gen.Chain, t string) bool {
		if len(cs) == 0 {
			return false
		}
		outs := ProcessBatches(run, tag+t, []*gen.Batch{{Chains: cs}}, opts)
		return outs[0].Status == "analyzer-panic"
	}
	cur := chains
	round := 0
	for len(cur) > 1 && round < 8 {
		round++
		h := len(cur) / 2
		a, b := cur[:h], cur[h:]
		if crashes(a, fmt.Sprintf("-r%da", round)) {
			cur = a
			continue
		}
		if crashes(b, fmt.Sprintf("-r%db", round)) {
			cur = b
			continue
		}
		break
	}
	// one-at-a-time removal, at most 24 attempts
	attempts := 0
	for i := 0; i < len(cur) && attempts < 24 && len(cur) > 1; {
		attempts++
		cand := append(append([]gen.Chain{}, cur[:i]...), cur[i+1:]...)
		if crashes(cand, fmt.Sprintf("-d%d", attempts)) {
			cur = cand
		} else {
			i++
		}
	}
	return cur
}

// secondSourcePhase: every chain gets a second, independent source reaching the same sink call, and the
// specification is split into two taint-tracking problems sharing the sinks. Both observed pairs must be reported.
func secondSourcePhase(run *core.Run, links []string, tier string) {
	known := run.KnownSigs()
	var chains []gen.Chain
	id := 1
	for _, l := range links {
		if known[l] || known[l+">*"] {
			continue
		}
		chains = append(chains, gen.Chain{ID: id, Links: []string{l}})
		id++
		if tier != "thorough" && id > 60 {
			break
		}
	}
	var batches []*gen.Batch
	for i := 0; i < len(chains); i += 30 {
		j := i + 30
		if j > len(chains) {
			j = len(chains)
		}
		batches = append(batches, &gen.Batch{Chains: chains[i:j], SecondSource: true})
	}
	opts := ChainOpts{Cfgs: []ChainCfg{{Name: "2p-eager", Rewrites: true, TwoProblems: true}, {Name: "2p-ondemand", OnDemand: true, Rewrites: true, TwoProblems: true}}, Repeat: 1}
	outs := ProcessBatches(run, "two", batches, opts)
	checked := 0
	for _, o := range outs {
		if o.Status != "ok" {
			run.Inconclusive("second-source batch: " + o.Status + " " + firstLine(o.Detail))
			continue
		}
		for _, ch := range o.Batch.Chains {
			if _, w := o.Waived[ch.ID]; w {
				continue
			}
			p1, p2 := Pair{ch.ID, ch.ID}, Pair{gen.SecondSourceBase + ch.ID, ch.ID}
			_, ob1 := o.Observed[p1]
			_, ob2 := o.Observed[p2]
			if !ob1 || !ob2 {
				continue
			}
			for _, c := range opts.Cfgs {
				reps := o.Reported[c.Name]
				if len(reps) == 0 {
					continue
				}
				checked++
				r1, r2 := reps[0][p1], reps[0][p2]
				if r1 && r2 {
					continue
				}
				if !r1 && !r2 {
					continue // the link itself fails here: that is the main phase's business
				}
				sig := "one-of-two-sources-lost@" + c.Name
				if run.IsKnown(sig) {
					continue
				}
				run.Violation(sig, fmt.Sprintf("chain %v with two independent sources reaching the same sink call, two taint-tracking problems sharing the sink (%s): both flows observed natively, reported: first source %v, second source %v", ch.Links, c.Name, r1, r2), copyFiles(o))
			}
		}
	}
	run.Cov["two_problem_obligations_checked"] = checked
}

var reFrame2 = regexp.MustCompile(`(?m)^(github\.com/awslabs/ar-go-tools/[^\s(]+(?:\([^)]*\))?[^\s(]*)\(`)

// crashSignature reduces a Go crash dump to "<message class>@<innermost three analyzer frames>".
func crashSignature(dump string) string {
	msg := "panic"
	for _, line := range strings.Split(dump, "\n") {
		if strings.HasPrefix(line, "panic: ") || strings.HasPrefix(line, "fatal error: ") {
			msg = line
			break
		}
	}
	// strip volatile parts of the message (addresses, node ids, quoted values)
	msg = regexp.MustCompile(`0x[0-9a-f]+|#[0-9]+\.[0-9]+|"[^"]*"|\[[^\]]*\]`).ReplaceAllString(msg, "_")
	if len(msg) > 80 {
		msg = msg[:80]
	}
	var frames []string
	for _, m := range reFrame2.FindAllStringSubmatch(dump, -1) {
		f := strings.TrimPrefix(m[1], "github.com/awslabs/ar-go-tools/")
		if len(frames) > 0 && frames[len(frames)-1] == f {
			continue
		}
		frames = append(frames, f)
		if len(frames) == 3 {
			break
		}
	}
	return strings.ReplaceAll(msg, " ", "_") + "@" + strings.Join(frames, "<")
}
