package checks

import (
	"encoding/json"
	"fmt"
	"os"
	"path/filepath"
	"strings"
	"sync"

	"verif/harness/core"
	"verif/harness/gen"
)

// specCase is one specified function: arity a (incl. receiver for methods), r results, matrices, call form, body kind.
type specCase struct {
	A, R int
	Args [][]int // Args[i] = list of k
	Rets [][]int // Rets[i] = list of j
	Form string  // direct | method | invoke | funcval | deferred
	Body string  // all | none
	Bits uint64
	Idx  int
}

func (c specCase) has(m [][]int, i, t int) bool {
	if i >= len(m) {
		return false
	}
	for _, x := range m[i] {
		if x == t {
			return true
		}
	}
	return false
}

func matrixFromBits(bits uint64, a, r int) (args, rets [][]int) {
	args = make([][]int, a)
	rets = make([][]int, a)
	b := 0
	for i := 0; i < a; i++ {
		args[i] = []int{}
		for k := 0; k < a; k++ {
			if bits&(1<<b) != 0 {
				args[i] = append(args[i], k)
			}
			b++
		}
	}
	for i := 0; i < a; i++ {
		rets[i] = []int{}
		for j := 0; j < r; j++ {
			if bits&(1<<b) != 0 {
				rets[i] = append(rets[i], j)
			}
			b++
		}
	}
	return
}

func retTypes(r int) string {
	switch r {
	case 0:
		return ""
	case 1:
		return " *T"
	}
	return " (*T, *T)"
}

// renderSpecProgram renders lib (specified functions, with bodies that disagree with the spec) and main (one test
// function per (case, tainted argument)) and the dataflow-specs json.
func renderSpecProgram(cases []specCase) (files map[string]string, specs string) {
	var lib, mainb strings.Builder
	lib.WriteString("// Package lib holds functions whose dataflow is given by a specification file.\npackage lib\n\n")
	lib.WriteString("// T carries data.\ntype T struct{ S string }\n\n")
	mainb.WriteString("package main\n\nimport (\n\t\"vprog/lib\"\n\t\"vprog/rt\"\n)\n\n")
	type contract struct {
		InterfaceID string                    `json:"InterfaceId,omitempty"`
		ObjectPath  string                    `json:"ObjectPath,omitempty"`
		Methods     map[string]map[string]any `json:"Methods"`
	}
	var contracts []contract
	fnContract := contract{ObjectPath: "vprog/lib", Methods: map[string]map[string]any{}}
	var tests []string
	for _, c := range cases {
		n := c.Idx
		// body
		body := func(params []string) string {
			var sb strings.Builder
			if c.Body == "all" {
				all := "\"\""
				for _, p := range params {
					all += " + " + p + ".S"
				}
				sb.WriteString("\tall := " + all + "\n")
				for _, p := range params {
					sb.WriteString("\t" + p + ".S = all\n")
				}
				switch c.R {
				case 1:
					sb.WriteString("\treturn &T{S: all}\n")
				case 2:
					sb.WriteString("\treturn &T{S: all}, &T{S: all}\n")
				}
			} else {
				switch c.R {
				case 1:
					sb.WriteString("\treturn &T{S: \"k\"}\n")
				case 2:
					sb.WriteString("\treturn &T{S: \"k\"}, &T{S: \"k\"}\n")
				}
			}
			return sb.String()
		}
		var params []string
		for i := 0; i < c.A; i++ {
			params = append(params, fmt.Sprintf("a%d", i))
		}
		sum := map[string]any{"Args": c.Args, "Rets": c.Rets}
		callExpr := ""
		pre := ""
		switch c.Form {
		case "direct", "funcval", "deferred":
			fmt.Fprintf(&lib, "// F%d is specified externally.\nfunc F%d(%s *T)%s {\n%s}\n\n", n, n, strings.Join(params, ", "), retTypes(c.R), body(params))
			fnContract.Methods[fmt.Sprintf("F%d", n)] = sum
			callExpr = fmt.Sprintf("lib.F%d(%s)", n, strings.Join(params, ", "))
			if c.Form == "funcval" {
				pre = fmt.Sprintf("\tfv := pick%d(lib.F%d)\n", n, n)
				fmt.Fprintf(&mainb, "func pick%d(f func(%s *lib.T)%s) func(%s *lib.T)%s { return f }\n\n", n,
					strings.Join(params, ", "), strings.ReplaceAll(retTypes(c.R), "*T", "*lib.T"), strings.Join(params, ", "), strings.ReplaceAll(retTypes(c.R), "*T", "*lib.T"))
				callExpr = fmt.Sprintf("fv(%s)", strings.Join(params, ", "))
			}
		case "method":
			// receiver is argument 0
			fmt.Fprintf(&lib, "// X%d has a specified method.\ntype X%d struct{ S string }\n\n", n, n)
			rest := params[1:]
			restDecl := ""
			if len(rest) > 0 {
				restDecl = strings.Join(rest, ", ") + " *T"
			}
			mb := body(params)
			fmt.Fprintf(&lib, "// M is specified externally.\nfunc (a0 *X%d) M(%s)%s {\n%s}\n\n", n, restDecl, retTypes(c.R), mb)
			contracts = append(contracts, contract{ObjectPath: fmt.Sprintf("(*vprog/lib.X%d)", n), Methods: map[string]map[string]any{"M": sum}})
			callExpr = fmt.Sprintf("a0.M(%s)", strings.Join(rest, ", "))
		case "invoke":
			// interface I<n> with method M; two implementations whose bodies disagree with the spec and with each
			// other; a conflicting function spec on implementation Y (everything flows / nothing flows inverted).
			rest := params[1:]
			restDecl := ""
			if len(rest) > 0 {
				restDecl = strings.Join(rest, ", ") + " *T"
			}
			fmt.Fprintf(&lib, "// I%d has a specified method.\ntype I%d interface {\n\tM(%s)%s\n}\n\n", n, n, restDecl, retTypes(c.R))
			fmt.Fprintf(&lib, "// Y%d implements I%d.\ntype Y%d struct{ S string }\n\n// Z%d implements I%d.\ntype Z%d struct{ S string }\n\n", n, n, n, n, n, n)
			fmt.Fprintf(&lib, "// M is one implementation.\nfunc (a0 *Y%d) M(%s)%s {\n%s}\n\n", n, restDecl, retTypes(c.R), body(params))
			other := c
			if c.Body == "all" {
				other.Body = "none"
			} else {
				other.Body = "all"
			}
			ob := func() string { cc := c; c = other; s := body(params); c = cc; return s }()
			fmt.Fprintf(&lib, "// M is the other implementation.\nfunc (a0 *Z%d) M(%s)%s {\n%s}\n\n", n, restDecl, retTypes(c.R), ob)
			fmt.Fprintf(&lib, "// New%d picks an implementation.\nfunc New%d(b bool, s string) I%d {\n\tif b {\n\t\treturn &Y%d{S: s}\n\t}\n\treturn &Z%d{S: s}\n}\n\n", n, n, n, n, n)
			contracts = append(contracts, contract{InterfaceID: fmt.Sprintf("vprog/lib.I%d", n), Methods: map[string]map[string]any{"M": sum}})
			// conflicting function spec on Y: complement matrices
			cArgs, cRets := make([][]int, c.A), make([][]int, c.A)
			for i := 0; i < c.A; i++ {
				cArgs[i], cRets[i] = []int{}, []int{}
				for k := 0; k < c.A; k++ {
					if !c.has(c.Args, i, k) {
						cArgs[i] = append(cArgs[i], k)
					}
				}
				for j := 0; j < c.R; j++ {
					if !c.has(c.Rets, i, j) {
						cRets[i] = append(cRets[i], j)
					}
				}
			}
			contracts = append(contracts, contract{ObjectPath: fmt.Sprintf("(*vprog/lib.Y%d)", n), Methods: map[string]map[string]any{"M": {"Args": cArgs, "Rets": cRets}}})
			callExpr = fmt.Sprintf("a0.M(%s)", strings.Join(rest, ", "))
		}
		for i := 0; i < c.A; i++ {
			sid := n*10 + i
			name := fmt.Sprintf("t%d_%d", n, i)
			tests = append(tests, name)
			fmt.Fprintf(&mainb, "func %s() {\n", name)
			for p := 0; p < c.A; p++ {
				val := "\"k\""
				if p == i {
					val = fmt.Sprintf("rt.Source(%d)", sid)
				}
				switch {
				case p == 0 && c.Form == "method":
					fmt.Fprintf(&mainb, "\ta0 := &lib.X%d{S: %s}\n", n, val)
				case p == 0 && c.Form == "invoke":
					fmt.Fprintf(&mainb, "\ta0 := lib.New%d(rt.Cond(0), %s)\n", n, val)
				default:
					fmt.Fprintf(&mainb, "\ta%d := &lib.T{S: %s}\n", p, val)
				}
			}
			mainb.WriteString(pre)
			var rs []string
			for j := 0; j < c.R; j++ {
				rs = append(rs, fmt.Sprintf("r%d", j))
			}
			if c.Form == "deferred" {
				fmt.Fprintf(&mainb, "\tfunc() {\n\t\tdefer %s\n\t}()\n", callExpr)
			} else if c.R > 0 {
				fmt.Fprintf(&mainb, "\t%s := %s\n", strings.Join(rs, ", "), callExpr)
			} else {
				fmt.Fprintf(&mainb, "\t%s\n", callExpr)
			}
			if c.Form != "deferred" {
				for j := 0; j < c.R; j++ {
					fmt.Fprintf(&mainb, "\trt.Sink(%d, r%d)\n", sid*100+j, j)
				}
			}
			for k := 0; k < c.A; k++ {
				if k == i {
					continue
				}
				fmt.Fprintf(&mainb, "\trt.Sink(%d, a%d)\n", sid*100+10+k, k)
			}
			mainb.WriteString("}\n\n")
		}
	}
	if len(fnContract.Methods) > 0 {
		contracts = append(contracts, fnContract)
	}
	mainb.WriteString("func main() {\n\tdefer rt.Done()\n")
	for _, t := range tests {
		fmt.Fprintf(&mainb, "\t%s()\n", t)
	}
	mainb.WriteString("}\n")
	sj, _ := json.MarshalIndent(contracts, "", " ")
	return map[string]string{"main.go": mainb.String(), "lib/lib.go": lib.String()}, string(sj)
}

// C10 — user dataflow specifications are applied exactly as written.
func C10(tier string) {
	run := core.NewRun("C10", tier)
	var cases []specCase
	idx := 1
	r := core.NewRNG(run.SeedV, "c10-"+tier)
	forms := []string{"direct", "method", "invoke", "funcval", "deferred"}
	exhaustiveShapes := []string{}
	for a := 1; a <= 3; a++ {
		for rr := 0; rr <= 2; rr++ {
			nbits := a*a + a*rr
			total := uint64(1) << nbits
			limit := total
			exhaustive := true
			if tier != "thorough" && total > 512 {
				limit = 160
				exhaustive = false
			}
			if exhaustive {
				exhaustiveShapes = append(exhaustiveShapes, fmt.Sprintf("(%d,%d)", a, rr))
			}
			for n := uint64(0); n < limit; n++ {
				bits := n
				if !exhaustive {
					bits = r.Uint64() % total
				}
				args, rets := matrixFromBits(bits, a, rr)
				form := forms[(int(bits)+idx)%len(forms)]
				body := "all"
				if (bits>>3+uint64(idx))%2 == 0 {
					body = "none"
				}
				cases = append(cases, specCase{A: a, R: rr, Args: args, Rets: rets, Form: form, Body: body, Bits: bits, Idx: idx})
				idx++
			}
		}
	}
	// Every shape x form x body for the all-ones and all-zero matrices (makes sure each combination is present).
	for a := 1; a <= 3; a++ {
		for rr := 0; rr <= 2; rr++ {
			for _, f := range forms {
				for _, bd := range []string{"all", "none"} {
					for _, bits := range []uint64{0, (uint64(1) << (a*a + a*rr)) - 1} {
						args, rets := matrixFromBits(bits, a, rr)
						cases = append(cases, specCase{A: a, R: rr, Args: args, Rets: rets, Form: f, Body: bd, Bits: bits, Idx: idx})
						idx++
					}
				}
			}
		}
	}
	per := 96
	type prog struct{ lo, hi int }
	var progs []prog
	for i := 0; i < len(cases); i += per {
		j := i + per
		if j > len(cases) {
			j = len(cases)
		}
		progs = append(progs, prog{i, j})
	}
	cfgs := []ChainCfg{{Name: "eager", Rewrites: true}, {Name: "ondemand", OnDemand: true, Rewrites: true}}
	if tier == "thorough" {
		cfgs = append(cfgs, ChainCfg{Name: "eager-fs", FieldSens: true, Rewrites: true})
	}
	var mu sync.Mutex
	checked, positive := 0, 0
	core.Parallel(len(progs), 8, func(pi int) {
		p := progs[pi]
		cs := cases[p.lo:p.hi]
		dir := filepath.Join(run.Scratch, fmt.Sprintf("p%03d", pi))
		files, specs := renderSpecProgram(cs)
		if err := gen.WriteProgram(dir, files); err != nil {
			run.Inconclusive(err.Error())
			return
		}
		_ = os.WriteFile(filepath.Join(dir, "specs.json"), []byte(specs), 0o644)
		if pi == 0 {
			if err := gen.VetStub(dir); err != nil {
				run.Inconclusive("generator bug: " + err.Error())
				return
			}
		}
		sites := gen.ScanSites(files)
		job := &TaintJob{Dir: dir, Out: filepath.Join(dir, "taint.out.json")}
		for _, c := range cfgs {
			c.TopLevel = "dataflow-specs:\n  - \"specs.json\"\n"
			cp := filepath.Join(dir, "cfg-"+c.Name+".yaml")
			_ = os.WriteFile(cp, []byte(c.YAML()), 0o644)
			job.Runs = append(job.Runs, TaintRunSpec{Name: c.Name, Config: cp, Rewrites: c.Rewrites, Repeat: 1})
		}
		jf := filepath.Join(dir, "taint.job.json")
		core.WriteJSON(jf, job)
		cr := SpawnWorker("taint", jf, 0)
		_ = cr
		var res TaintJobResult
		if cr.Status != "ok" {
			data, _ := os.ReadFile(cr.LogFile)
			if cr.Status == "panic" {
				fl := withRT(files)
				fl["specs.json"] = specs
				run.Violation("analyzer-panic", "taint analysis crashed on a spec program: "+tailStr(string(data), 3000), fl)
			} else {
				run.Inconclusive("worker " + cr.Status + ": " + tailStr(string(data), 300))
			}
			return
		}
		if err := core.ReadJSON(job.Out, &res); err != nil || res.Err != "" {
			run.Inconclusive(fmt.Sprintf("worker result: %v %s", err, res.Err))
			return
		}
		for cfg, reps := range res.Results {
			reported := map[Pair]bool{}
			for _, fp := range reps[0].Flows {
				s, ok1 := sites.SrcLine[fp.Src.String()]
				k, ok2 := sites.SnkLine[fp.Snk.String()]
				if ok1 && ok2 {
					reported[Pair{s, k}] = true
				}
			}
			for _, c := range cs {
				for i := 0; i < c.A; i++ {
					sid := c.Idx*10 + i
					check := func(t int, want bool, what string) {
						got := reported[Pair{sid, sid*100 + t}]
						mu.Lock()
						checked++
						if want {
							positive++
						}
						mu.Unlock()
						if got == want {
							return
						}
						kind := "missing"
						if got {
							kind = "extra"
						}
						sig := fmt.Sprintf("spec:%s:a%dr%d:%s:%s", c.Form, c.A, c.R, kind, what)
						if run.IsKnown(sig) {
							return
						}
						single, sspec := renderSpecProgram([]specCase{c})
						fl := withRT(single)
						fl["prog/specs.json"] = sspec
						fl["cfg.yaml"] = func() string { cc := cfgs[0]; cc.TopLevel = "dataflow-specs:\n  - \"specs.json\"\n"; return cc.YAML() }()
						run.Violation(sig, fmt.Sprintf("function #%d form=%s arity=%d results=%d body=%s Args=%v Rets=%v config=%s: flow from tainted argument %d to %s is %s (spec says %v, tool reported %v)",
							c.Idx, c.Form, c.A, c.R, c.Body, c.Args, c.Rets, cfg, i, what, kind, want, got), fl)
					}
					if c.Form != "deferred" {
						for j := 0; j < c.R; j++ {
							check(j, c.has(c.Rets, i, j), fmt.Sprintf("result%d", j))
						}
					}
					for k := 0; k < c.A; k++ {
						if k != i {
							check(10+k, c.has(c.Args, i, k), "argument")
						}
					}
				}
				run.Distinct(fmt.Sprintf("%s/a%dr%d/%x/%s", c.Form, c.A, c.R, c.Bits, c.Body))
			}
		}
		mu.Lock()
		if pi == 1 {
			c := cs[0]
			run.Sample(map[string]any{"form": c.Form, "arity": c.A, "results": c.R, "Args": c.Args, "Rets": c.Rets, "body": c.Body})
		}
		mu.Unlock()
	})
	run.Eval(len(cases))
	run.Cov["exhaustive"] = tier == "thorough"
	run.Cov["exhaustive_shapes_(arity,results)"] = exhaustiveShapes
	run.Cov["obligations_checked"] = checked
	run.Cov["obligations_expecting_a_flow"] = positive
	run.Cov["programs"] = len(progs)
	run.Cov["call_forms"] = forms
	run.Assumptions = append(run.Assumptions, "flows from an argument to itself (k == i) are not checked: the data is in that object before the call",
		"bodies never alias parameters with results, so the pointer analysis cannot re-introduce a flow the spec omits")
	run.Finish("exploration", "every 0/1 Args/Rets matrix of each (arity<=3, results<=2) shape (exhaustive where listed, seeded sample otherwise) is attached to a function whose body says the opposite "+
		"(everything flows / nothing flows), called in one of 5 forms; non-trivial distinct case = (form, shape, matrix, body); oracle: flow from tainted argument i to result j / other argument k is reported IFF the matrix lists it")
}
