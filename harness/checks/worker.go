package checks

import (
	"fmt"
	"os"
	"path/filepath"
	"sort"
	"strings"
	"time"

	"github.com/awslabs/ar-go-tools/analysis/dataflow"
	"golang.org/x/tools/go/callgraph"
	"golang.org/x/tools/go/ssa"

	"verif/harness/ana"
	"verif/harness/core"
)

// TaintRunSpec is one analyzer configuration to run on a program.
type TaintRunSpec struct {
	Name     string `json:"name"`
	Config   string `json:"config"` // path of the yaml file
	Rewrites bool   `json:"rewrites"`
	Repeat   int    `json:"repeat"` // number of repetitions (>=1); results are kept per repetition
	// Analysis is "taint" (default) or "backtrace". For backtrace every (trace step position, entry site) pair is
	// returned as a flow, and trace well-formedness defects in Shape.
	Analysis string `json:"analysis,omitempty"`
}

// TaintJob is a worker job: run taint under several configurations on one program.
type TaintJob struct {
	Dir        string         `json:"dir"`
	Runs       []TaintRunSpec `json:"runs"`
	GuardFuncs []string       `json:"guard_funcs"` // functions (by name, package main) for which the fragment guard is evaluated
	Out        string         `json:"out"`
}

// TaintJobResult is the worker's answer.
type TaintJobResult struct {
	Results map[string][]ana.TaintResult `json:"results"` // run name -> one result per repetition
	// Waived maps a guard function name to the body-summarised functions with unsound features reachable from it.
	Waived map[string][]string `json:"waived"`
	LoadS  float64             `json:"load_s"`
	AnaS   float64             `json:"ana_s"`
	Err    string              `json:"err,omitempty"`
}

// RunTaintJob executes a TaintJob in this process.
func RunTaintJob(job *TaintJob) *TaintJobResult {
	out := &TaintJobResult{Results: map[string][]ana.TaintResult{}, Waived: map[string][]string{}}
	loaded := map[bool]*ana.Loaded{}
	for _, rs := range job.Runs {
		l := loaded[rs.Rewrites]
		if l == nil {
			t0 := time.Now()
			var err error
			l, err = ana.Load(job.Dir, rs.Rewrites)
			if err != nil {
				out.Err = "load: " + err.Error()
				return out
			}
			out.LoadS += time.Since(t0).Seconds()
			loaded[rs.Rewrites] = l
		}
		n := rs.Repeat
		if n < 1 {
			n = 1
		}
		for k := 0; k < n; k++ {
			cfg, err := ana.LoadConfig(rs.Config)
			if err != nil {
				out.Err = "config: " + err.Error()
				return out
			}
			t0 := time.Now()
			if rs.Analysis == "backtrace" {
				br, full := l.Backtrace(cfg)
				out.AnaS += time.Since(t0).Seconds()
				out.Results[rs.Name] = append(out.Results[rs.Name], backtraceAsFlows(br))
				if st := full.Graph.AnalyzerState; st != nil && len(job.GuardFuncs) > 0 {
					for fn, offenders := range fragmentGuard(st, job.GuardFuncs) {
						out.Waived[fn] = mergeSorted(out.Waived[fn], offenders)
					}
				}
				continue
			}
			tr, res := l.Taint(cfg)
			out.AnaS += time.Since(t0).Seconds()
			out.Results[rs.Name] = append(out.Results[rs.Name], tr)
			if res.State != nil && len(job.GuardFuncs) > 0 {
				for fn, offenders := range fragmentGuard(res.State, job.GuardFuncs) {
					out.Waived[fn] = mergeSorted(out.Waived[fn], offenders)
				}
			}
		}
	}
	return out
}

// backtraceAsFlows flattens a backtrace result: one flow (step position -> entry site) per trace step.
func backtraceAsFlows(br ana.BacktraceResult) ana.TaintResult {
	out := ana.TaintResult{Err: br.Err}
	seen := map[ana.FlowPair]bool{}
	for _, e := range br.Entries {
		out.Traces += len(e.Traces)
		for _, se := range e.ShapeErrors {
			if len(out.Shape) < 20 {
				out.Shape = append(out.Shape, fmt.Sprintf("entry %s arg %d: %s", e.Site, e.Arg, se))
			}
		}
		for _, t := range e.Traces {
			for _, st := range t {
				fp := ana.FlowPair{Src: ana.Pos{File: st.File, Line: st.Line}, Snk: e.Site}
				if !seen[fp] {
					seen[fp] = true
					out.Flows = append(out.Flows, fp)
				}
			}
		}
	}
	ana.SortFlows(out.Flows)
	return out
}

func mergeSorted(a, b []string) []string {
	m := map[string]bool{}
	for _, x := range a {
		m[x] = true
	}
	for _, x := range b {
		m[x] = true
	}
	var out []string
	for x := range m {
		out = append(out, x)
	}
	sort.Strings(out)
	return out
}

// fragmentGuard evaluates the mechanical, conservative fragment-membership test of property C01: a chain's
// obligation is waived when some function that is call-graph reachable from the chain's function was
// summarised from its body and uses reflection, unsafe or recover (the functions for which the tool prints
// its unsupported-feature warning).
func fragmentGuard(state *dataflow.AnalyzerState, funcs []string) map[string][]string {
	res := map[string][]string{}
	if state.PointerAnalysis == nil || state.FlowGraph == nil {
		return res
	}
	cg := state.PointerAnalysis.CallGraph
	want := map[string]bool{}
	for _, f := range funcs {
		want[f] = true
	}
	unsound := map[*ssa.Function]int{} // 0 unknown, 1 no, 2 yes
	isOffender := func(f *ssa.Function) bool {
		if v := unsound[f]; v != 0 {
			return v == 2
		}
		v := 1
		if s := state.FlowGraph.Summaries[f]; s != nil && s.Constructed && !s.IsPreSummarized && f.Blocks != nil {
			uf := dataflow.FindUnsoundFeatures(f)
			if len(uf.Recovers) > 0 || len(uf.UnsafeUsages) > 0 || len(uf.ReflectUsages) > 0 {
				v = 2
			}
		}
		unsound[f] = v
		return v == 2
	}
	bodyBuilt := func(f *ssa.Function) bool {
		s := state.FlowGraph.Summaries[f]
		return s != nil && s.Constructed && !s.IsPreSummarized && f.Blocks != nil
	}
	for fn, node := range cg.Nodes {
		if fn == nil || fn.Pkg == nil || fn.Pkg.Pkg.Name() != "main" || !want[fn.Name()] {
			continue
		}
		// Walk the call graph from the chain function, but only *through* functions that the analysis
		// summarised from their body: a callee with a predefined summary (or none) is opaque to the analysis, so
		// what it calls is not "analysed from its body" on behalf of this data.
		seen := map[*ssa.Function]bool{fn: true}
		work := []*callgraphNode{node}
		var offenders []string
		for len(work) > 0 {
			cur := work[len(work)-1]
			work = work[:len(work)-1]
			if isOffender(cur.Func) {
				offenders = append(offenders, cur.Func.String())
			}
			if cur.Func != fn && !bodyBuilt(cur.Func) {
				continue
			}
			for _, e := range cur.Out {
				if e.Callee == nil || e.Callee.Func == nil || seen[e.Callee.Func] {
					continue
				}
				seen[e.Callee.Func] = true
				work = append(work, e.Callee)
			}
		}
		if len(offenders) > 0 {
			sort.Strings(offenders)
			if len(offenders) > 5 {
				offenders = offenders[:5]
			}
			res[fn.Name()] = offenders
		}
	}
	return res
}

// WorkerMain is the entry point of `vdriver worker <kind> <job.json>`.
func WorkerMain(kind, jobFile string) {
	switch kind {
	case "taint":
		var job TaintJob
		if err := core.ReadJSON(jobFile, &job); err != nil {
			fmt.Fprintln(os.Stderr, err)
			os.Exit(2)
		}
		res := RunTaintJob(&job)
		core.WriteJSON(job.Out, res)
	default:
		if f := extraWorkers[kind]; f != nil {
			f(jobFile)
			return
		}
		fmt.Fprintf(os.Stderr, "unknown worker kind %s\n", kind)
		os.Exit(2)
	}
}

type callgraphNode = callgraph.Node

var extraWorkers = map[string]func(jobFile string){}

// SpawnWorker runs a worker child for the job file and returns its classification.
func SpawnWorker(kind, jobFile string, watchdog time.Duration, env ...string) core.ChildResult {
	logFile := strings.TrimSuffix(jobFile, filepath.Ext(jobFile)) + ".log"
	return core.RunChild([]string{core.Self(), "worker", kind, jobFile}, env, logFile, watchdog)
}
