package ana

import (
	"fmt"
	"sort"
	"strings"

	"github.com/awslabs/ar-go-tools/analysis/backtrace"
	"github.com/awslabs/ar-go-tools/analysis/config"
	"github.com/awslabs/ar-go-tools/analysis/dataflow"
)

// TraceStep is one node of a reported backtrace.
type TraceStep struct {
	File string `json:"f"`
	Line int    `json:"l"`
	Kind string `json:"k"`
}

// EntryTraces are the traces reported for one backtrace-point argument.
type EntryTraces struct {
	Site   Pos           `json:"site"` // position of the backtrace-point call
	Arg    int           `json:"arg"`
	Kind   string        `json:"kind"`
	Traces [][]TraceStep `json:"traces"`
	// ShapeErrors lists well-formedness defects of the traces (computed in-process on the live graph).
	ShapeErrors []string `json:"shape_errors,omitempty"`
}

// BacktraceResult is the position-keyed result of one backtrace run.
type BacktraceResult struct {
	Entries []EntryTraces `json:"entries"`
	Err     string        `json:"err,omitempty"`
}

func nodeKindOf(n dataflow.GraphNode) string {
	return strings.TrimPrefix(fmt.Sprintf("%T", n), "*dataflow.")
}

// Backtrace runs backtrace.Analyze with cfg on the loaded program.
func (l *Loaded) Backtrace(cfg *config.Config) (BacktraceResult, backtrace.AnalysisResult) {
	res, err := backtrace.Analyze(config.NewLogGroup(cfg), cfg, l.Prog, l.Pkgs)
	out := BacktraceResult{}
	if err != nil {
		out.Err = err.Error()
	}
	for entry, traces := range res.Traces {
		et := EntryTraces{Kind: nodeKindOf(entry), Arg: -1}
		if a, ok := entry.(*dataflow.CallNodeArg); ok {
			et.Arg = a.Index()
			if cs := a.ParentNode().CallSite(); cs != nil {
				if p, ok := l.PosOf(cs); ok {
					et.Site = p
				}
			}
		} else if in := dataflow.Instr(entry); in != nil {
			if p, ok := l.PosOf(in); ok {
				et.Site = p
			}
		}
		for _, tr := range traces {
			var steps []TraceStep
			for _, tn := range tr {
				p := l.rel(tn.Pos.Filename, tn.Pos.Line)
				steps = append(steps, TraceStep{File: p.File, Line: p.Line, Kind: nodeKindOf(tn.GraphNode)})
			}
			et.Traces = append(et.Traces, steps)
			// shape: the trace must end at the entry argument and consecutive nodes must be connected
			if len(tr) == 0 {
				et.ShapeErrors = append(et.ShapeErrors, "empty trace")
				continue
			}
			if last := tr[len(tr)-1].GraphNode; last != entry {
				et.ShapeErrors = append(et.ShapeErrors, fmt.Sprintf("trace does not end at its entry argument [%s]: ends at %s", nodeKindOf(last), last.String()))
			}
			for i := 0; i+1 < len(tr); i++ {
				a, b := tr[i].GraphNode, tr[i+1].GraphNode
				if !connected(a, b) {
					et.ShapeErrors = append(et.ShapeErrors, fmt.Sprintf("no dataflow step between consecutive trace nodes [%s -> %s]: %s and %s (step %d)", nodeKindOf(a), nodeKindOf(b), a.String(), b.String(), i))
					break
				}
			}
		}
		sort.Slice(et.Traces, func(i, j int) bool { return fmt.Sprint(et.Traces[i]) < fmt.Sprint(et.Traces[j]) })
		out.Entries = append(out.Entries, et)
	}
	sort.Slice(out.Entries, func(i, j int) bool {
		a, b := out.Entries[i], out.Entries[j]
		if a.Site != b.Site {
			return lessPos(a.Site, b.Site)
		}
		return a.Arg < b.Arg
	})
	return out, res
}

// connected reports whether a -> b is a dataflow step: an intra-procedural edge, or one of the inter-procedural
// steps (argument<->parameter, return<->call, bound variable<->free variable, closure, global write->read).
func connected(a, b dataflow.GraphNode) bool {
	if _, ok := a.Out()[b]; ok {
		return true
	}
	if _, ok := b.In()[a]; ok {
		return true
	}
	ga, gb := a.Graph(), b.Graph()
	switch x := a.(type) {
	case *dataflow.CallNodeArg:
		// argument -> parameter of a callee
		if p, ok := b.(*dataflow.ParamNode); ok {
			return ga != gb || p != nil
		}
	case *dataflow.ParamNode:
		// parameter -> argument at a call site (returning up / out-parameter)
		if _, ok := b.(*dataflow.CallNodeArg); ok {
			return true
		}
		if _, ok := b.(*dataflow.CallNode); ok {
			return true
		}
		_ = x
	case *dataflow.ReturnValNode:
		if _, ok := b.(*dataflow.CallNode); ok {
			return true
		}
	case *dataflow.CallNode:
		if _, ok := b.(*dataflow.ReturnValNode); ok {
			return true
		}
		if _, ok := b.(*dataflow.ParamNode); ok {
			return true
		}
	case *dataflow.BoundVarNode:
		if _, ok := b.(*dataflow.FreeVarNode); ok {
			return true
		}
		if c, ok := b.(*dataflow.ClosureNode); ok {
			return x.ParentNode() == c
		}
	case *dataflow.FreeVarNode:
		if _, ok := b.(*dataflow.BoundVarNode); ok {
			return true
		}
	case *dataflow.ClosureNode:
		if bv, ok := b.(*dataflow.BoundVarNode); ok {
			return bv.ParentNode() == x
		}
		return ga != gb
	case *dataflow.BoundLabelNode:
		return true
	case *dataflow.AccessGlobalNode:
		if y, ok := b.(*dataflow.AccessGlobalNode); ok {
			return x.Global == y.Global
		}
	}
	switch b.(type) {
	case *dataflow.ClosureNode, *dataflow.BoundLabelNode, *dataflow.FreeVarNode, *dataflow.BoundVarNode:
		return ga != gb
	}
	return false
}
