// Package ana wraps the public entry points of the analyzer under test (linked from /repo's working tree)
// and converts their answers into position-keyed plain data that the offline oracles compare with
// recorded executions.
package ana

import (
	"fmt"
	"os"
	"path/filepath"
	"sort"
	"strings"

	"github.com/awslabs/ar-go-tools/analysis"
	"github.com/awslabs/ar-go-tools/analysis/config"
	"github.com/awslabs/ar-go-tools/analysis/taint"
	"golang.org/x/tools/go/packages"
	"golang.org/x/tools/go/ssa"
)

// Loaded is a loaded program.
type Loaded struct {
	Prog *ssa.Program
	Pkgs []*packages.Package
	Dir  string
}

// Load loads the program rooted at dir (a module) exactly as the argot CLI does (same package load mode, same
// SSA builder mode), with or without the source rewrites.
func Load(dir string, rewrites bool, patterns ...string) (*Loaded, error) {
	if len(patterns) == 0 {
		patterns = []string{"."}
	}
	pcfg := &packages.Config{Mode: analysis.PkgLoadMode, Dir: dir, Tests: false}
	pcfg.Env = append(os.Environ(), "GOFLAGS=-mod=mod", "GOPROXY=off", "GOSUMDB=off", "GOTOOLCHAIN=local")
	prog, pkgs, err := analysis.LoadProgram(analysis.LoadProgramOptions{
		PackageConfig: pcfg,
		BuildMode:     ssa.InstantiateGenerics,
		LoadTests:     false,
		ApplyRewrites: rewrites,
	}, patterns)
	if err != nil {
		return nil, err
	}
	return &Loaded{Prog: prog, Pkgs: pkgs, Dir: dir}, nil
}

// Pos is a file:line position; File is relative to the program directory when possible.
type Pos struct {
	File string `json:"f"`
	Line int    `json:"l"`
}

func (p Pos) String() string { return fmt.Sprintf("%s:%d", p.File, p.Line) }

// PosOf returns the position of an instruction.
func (l *Loaded) PosOf(instr ssa.Instruction) (Pos, bool) {
	if instr == nil {
		return Pos{}, false
	}
	p, ok := taint.Position(l.Prog, instr)
	if !ok {
		return Pos{}, false
	}
	return l.rel(p.Filename, p.Line), true
}

func (l *Loaded) rel(file string, line int) Pos {
	if r, err := filepath.Rel(l.Dir, file); err == nil && !strings.HasPrefix(r, "..") {
		file = r
	}
	return Pos{File: file, Line: line}
}

// FlowPair is one reported taint flow.
type FlowPair struct {
	Src Pos `json:"src"`
	Snk Pos `json:"snk"`
}

// TaintResult is the position-keyed result of one taint run.
type TaintResult struct {
	Flows     []FlowPair `json:"flows"`
	NoPosEnds int        `json:"nopos_ends"`
	// EscapeSrcs are the positions of the sources of Escapes entries.
	EscapeSrcs []Pos  `json:"escape_srcs"`
	NEscapes   int    `json:"n_escapes"`
	Err        string `json:"err,omitempty"`
	// Backtrace only: number of traces and trace-shape defects.
	Traces int      `json:"traces,omitempty"`
	Shape  []string `json:"shape,omitempty"`
}

// LoadConfig loads a yaml config file the way the CLI does.
func LoadConfig(path string) (*config.Config, error) {
	return config.LoadFromFiles(path)
}

// Taint runs taint.Analyze with cfg on the loaded program.
func (l *Loaded) Taint(cfg *config.Config) (TaintResult, taint.AnalysisResult) {
	res, err := taint.Analyze(cfg, l.Prog, l.Pkgs)
	out := TaintResult{}
	if err != nil {
		out.Err = err.Error()
	}
	if res.TaintFlows == nil {
		return out, res
	}
	seen := map[FlowPair]bool{}
	for snk, srcs := range res.TaintFlows.Sinks {
		sp, ok1 := l.PosOf(snk.Instr)
		for src := range srcs {
			rp, ok2 := l.PosOf(src.Instr)
			if !ok1 || !ok2 {
				// an end inside a synthetic wrapper ($bound, $thunk) has no position: keep the flow, with a
				// placeholder position, so that checks keyed on the other end can still see it
				out.NoPosEnds++
				if !ok1 {
					sp = Pos{File: "<nopos>", Line: 0}
				}
				if !ok2 {
					rp = Pos{File: "<nopos>", Line: 0}
				}
			}
			fp := FlowPair{Src: rp, Snk: sp}
			if !seen[fp] {
				seen[fp] = true
				out.Flows = append(out.Flows, fp)
			}
		}
	}
	seenE := map[Pos]bool{}
	for _, srcs := range res.TaintFlows.Escapes {
		out.NEscapes++
		for src := range srcs {
			if p, ok := l.PosOf(src); ok && !seenE[p] {
				seenE[p] = true
				out.EscapeSrcs = append(out.EscapeSrcs, p)
			}
		}
	}
	SortFlows(out.Flows)
	sort.Slice(out.EscapeSrcs, func(i, j int) bool { return lessPos(out.EscapeSrcs[i], out.EscapeSrcs[j]) })
	return out, res
}

func lessPos(a, b Pos) bool {
	if a.File != b.File {
		return a.File < b.File
	}
	return a.Line < b.Line
}

// SortFlows sorts flow pairs canonically.
func SortFlows(f []FlowPair) {
	sort.Slice(f, func(i, j int) bool {
		if f[i].Src != f[j].Src {
			return lessPos(f[i].Src, f[j].Src)
		}
		return lessPos(f[i].Snk, f[j].Snk)
	})
}
